#!/usr/bin/env python3
"""Regenerates /verif/MANIFEST.json from tools/manifest_src.json (claimed checks) and properties.jsonl."""
import json, subprocess
src = json.load(open('/verif/tools/manifest_src.json'))
props = [json.loads(l)['id'] for l in open('/verif/properties.jsonl')]
hooks = subprocess.run(['git','-C','/repo','log','--format=%H %s'],capture_output=True,text=True).stdout.strip().split('\n')
hook_commits = [l.split()[0] for l in hooks if ' verif:' in l]
checks = []
for pid in props:
    c = src['checks'].get(pid)
    if not c: continue
    checks.append({
        "property_id": pid,
        "quick_cmd": f"./check {pid} --tier quick",
        "thorough_cmd": f"./check {pid} --tier thorough",
        "evidence_file": f"/verif/evidence/{pid}.json",
        "replay_cmd_template": "cat {path}",
        "engine": "gvc",
        "level_claimed": {"category": c.get("category","proof"), "text": c["text"], "design_ref": c.get("design_ref", "DESIGN.md section 4, "+pid)},
        "level_note": c["note"],
        "technique": c.get("technique", "contract-based deductive verification: weakest-precondition style VCs generated from go/ssa of the real functions plus //@ contracts, discharged by z3/cvc5"),
    })
na = [{"property_id": p, "reason": src['not_applicable'].get(p, "machinery not built yet (build in progress)")} for p in props if p not in src['checks']]
m = {
 "version": 1,
 "setup_cmd": "cd /verif && GOFLAGS=-mod=mod GOPROXY=off go build -o bin/gvc ./cmd/gvc",
 "hooks": {"guard": "verif", "enable": "gvc loads /repo with -tags=verif; the only hook files are comment-only zz_verif_contracts.go files carrying //@ contracts",
           "baseline_off_cmd": "cd /repo && go test -mod=mod -vet=off -count=1 -timeout 25m ./...",
           "source_commits": hook_commits, "add_only": True},
 "engines": [{"name": "gvc", "path": "cmd/gvc", "serves_properties": sorted(src['checks'].keys()),
              "kind_free_text": "own verification-condition generator for Go: symbolic execution with state merging over go/ssa (NaiveForm) of the real function bodies, Gobra-style //@ contracts, Burstall-Bornat heap, obligations discharged by z3-new/z3/cvc5"}],
 "checks": checks,
 "not_applicable": na,
 "notes": src.get("notes", ""),
}
json.dump(m, open('/verif/MANIFEST.json','w'), indent=1)
print("checks:", [c['property_id'] for c in checks], "n/a:", [x['property_id'] for x in na])
