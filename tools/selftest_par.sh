#!/bin/bash
# usage: selftest_par.sh [jobs] [filter]  -- the must-fail corpus of selftest.sh, <jobs> patches at a time (default 3).
cd /verif || exit 2
J=${1:-3}; FILTER=$2
list=$(mktemp)
for f in selftest/*.diff; do n=$(basename $f .diff); [ -n "$FILTER" ] && [[ "$n" != *$FILTER* ]] && continue; echo "selftest/$n ${n%%-*} $f"; done > $list
for d in seeded/*/; do n=$(basename $d); [ -n "$FILTER" ] && [[ "$n" != *$FILTER* ]] && continue
  prop=$(python3 -c "import json; m=json.load(open('$d/meta.json')); print(m.get('caught_by') or m['property'])")
  [ "$prop" = "none" ] && { echo "SKIP    seeded/$n (recorded as not caught)"; continue; }
  for p in $prop; do echo "seeded/$n $p ${d}patch.diff"; done; done >> $list
one() { name=$1; prop=$2; patch=$3
  out=$(tools/mutcheck.sh $prop $patch 2>&1)
  if echo "$out" | grep -q "^VIOLATION property=$prop"; then
    n=$(echo "$out" | grep -c "^VIOLATION"); r=$(echo "$out" | grep "^VIOLATION" | grep -vc "no-failing-input-found")
    echo "CAUGHT  $name by $prop ($n violations, $r reproduced on the real code) first: $(echo "$out" | grep -m1 '^FAILED' | cut -c19-140)"
  else echo "MISSED  $name by $prop :: $(echo "$out" | tail -1 | cut -c1-160)"; fi; }
export -f one
grep -v "^SKIP" $list | xargs -P $J -L 1 bash -c 'one "$0" "$1" "$2"'
grep "^SKIP" $list
rm -f $list
