#!/bin/bash
# usage: import_seed.sh <worktree> <seed-name> <property> <demo_rel_path> <demo_pkg> <run_regex> <tests_pkgs> <changed> <breaks>
# Copies patch.diff, notes.md and the demo from a sub-agent's scratch worktree into seeded/<seed-name>/ and writes meta.json.
WT=$1; NAME=$2; PROP=$3; DEMO=$4; PKG=$5; RUN=$6; TESTS=$7; CHANGED=$8; BREAKS=$9
D=/verif/seeded/$NAME
mkdir -p $D
cp $WT/patch.diff $D/patch.diff
cp $WT/notes.md $D/notes.md 2>/dev/null
cp $WT/$DEMO $D/$(basename $DEMO)
python3 - "$D" "$PROP" "$DEMO" "$PKG" "$RUN" "$TESTS" "$CHANGED" "$BREAKS" <<'PY'
import json,sys
d,prop,demo,pkg,run,tests,changed,breaks=sys.argv[1:9]
json.dump({"property":prop,"caught_by":prop,"breaks":breaks,"changed":changed,
 "demo":{"path":demo,"cmd":"GORDIAN_TEST_TIME_FACTOR=10 go test -vet=off -count=1 -run %s %s"%(run,pkg)},
 "confirmed":"tools/verify_seed.sh in a scratch worktree of /repo HEAD: builds; existing tests of the touched and dependent packages pass with the patch (known timing flakes of ./tm/tmengine aside); demo fails with the patch and passes without",
 "source":"independent sub-agent given only the property text (fifth round)",
 "verify":{"tests":tests,"run":run,"pkg":pkg}},open(d+"/meta.json","w"),indent=1)
PY
ls $D
