#!/bin/sh
# usage: mutcheck.sh <PROP> <patch.diff> [extra gvc args]   -- runs the check on a scratch copy of /repo with the patch applied
PROP=$1; PATCH=$(readlink -f "$2"); shift 2
D=$(mktemp -d /tmp/gvc-mut-XXXXXX)
rsync -a --exclude .git /repo/ $D/
( cd $D && patch -p1 -s < "$PATCH" ) || { echo "patch failed"; rm -rf $D; exit 3; }
export GOFLAGS=-mod=mod GOPROXY=off
GVC_REPO=$D GVC_OUT=$D.out /verif/bin/gvc check $PROP --no-evidence "$@" | sed "s#$D#/repo#g"
RC=$?
rm -rf $D $D.out
exit $RC
