#!/usr/bin/env python3
"""usage: seedprompts.py <round-tag> <P1> <P2> ...   -- writes /tmp/<round-tag>-prompt-<P>.txt for independent sub-agents that
produce property-breaking changes in their own scratch worktree /tmp/<round-tag>-<P> (created by the caller with
`git -C /repo worktree add --detach`). The prompt contains the property text and nothing from /verif."""
import json, sys
tag = sys.argv[1]
props = {json.loads(l)['id']: json.loads(l) for l in open('/verif/properties.jsonl')}
tmpl = '''You are helping test a verification effort for the Go repository gordian-engine/gordian (a Tendermint-style BFT consensus engine). You have your own scratch git worktree of the repository at {wt} (detached HEAD). Work ONLY inside that directory. Never touch /repo or /verif, never run `git stash`, never commit. Offline sandbox: export GOFLAGS=-mod=mod GOPROXY=off before any go command; no network. Other jobs share this machine: timing-based tests (./tm/tmengine, ./tm/tmintegration, libp2p integration) are flaky under load even on the original code - use GORDIAN_TEST_TIME_FACTOR=10 and judge flakiness by comparing against the original code. Ignore files named zz_verif_contracts.go (comment-only annotation files) - do not read them.

Property {pid}: "{title}"
Statement: {statement}
Quantifier: {quant}
Why the existing tests cannot settle it: {why}

Your task: produce ONE realistic change to the repository's non-test Go source (a plausible refactoring slip, optimisation, mis-merged condition, off-by-one, dropped check, reordered statement...) that BREAKS this property while the code still compiles and the existing tests of the touched package and its dependants still pass. It must be a change a reviewer could plausibly miss, not sabotage like deleting a function body. Prefer a change that needs something specific to manifest (a particular interleaving, a crash or fault at a particular point, a multi-step sequence of operations, an unusual input, or two cooperating sites that each look fine alone), not one that ordinary use would expose at once. {avoid}

Deliver, inside {wt}:
 1. the change applied in the working tree, and `git diff > {wt}/patch.diff` (source change only, no test files in the diff);
 2. a demonstration: a new Go test file (name it {lower}_{tag}_demo_test.go in the relevant package) that FAILS with your change applied and PASSES on the original code, showing the property being violated through the package's public or in-package API (use the repository's existing test fixtures where useful). Keep the demo file OUT of patch.diff (leave it untracked) and copy it to {wt}/demo_test.go.txt as well;
 3. {wt}/notes.md: which function you changed, what breaks, what input/schedule triggers it, the exact `go test` command for the demo, and which existing test packages you ran with the change applied (they must pass; say if any test is flaky independent of your change).
Verify all of this yourself before finishing: build, run the existing tests of the touched package (and obvious dependants), run the demo with and without the change (NEVER use `git stash`; to test without the change, use `git diff > /tmp/{lower}{tag}.diff && git apply -R /tmp/{lower}{tag}.diff` then re-apply). Report the final file paths and a one-paragraph summary.'''
avoid = json.load(open('/verif/tools/seed_avoid.json'))
for pid in sys.argv[2:]:
    d = props[pid]
    s = tmpl.format(wt='/tmp/%s-%s' % (tag, pid), pid=pid, title=d['title'], statement=d['statement'], quant=d['quantifier']['text'],
                    why=d['why_tests_cant'], avoid=avoid.get(pid, ''), lower=pid.lower(), tag=tag)
    open('/tmp/%s-prompt-%s.txt' % (tag, pid), 'w').write(s)
print('ok')
