#!/bin/bash
# usage: baseline_check.sh [repo_dir]  -- runs the pinned baseline test command (hooks guard off) and reports every
# test of BASELINE.json's stable_pass list that did not pass. Used to validate fix: commits. Needs a quiet machine.
REPO=${1:-/repo}
OUT=$(mktemp /tmp/baseline-XXXXXX.json)
cd $REPO && GOFLAGS=-mod=mod GOPROXY=off go test -mod=mod -json -vet=off -count=1 -timeout 25m ./... > $OUT 2>/dev/null
python3 - $OUT <<'PY'
import json,sys
res={}
for l in open(sys.argv[1]):
    try: d=json.loads(l)
    except Exception: continue
    if d.get('Test') and d.get('Action') in ('pass','fail','skip'):
        res[d['Package']+'::'+d['Test']]=d['Action']
b=json.load(open('/root/.vp/BASELINE.json'))
bad=[t for t in b['stable_pass'] if res.get(t)!='pass']
print('stable tests: %d, passed now: %d, not passed: %d'%(len(b['stable_pass']),len(b['stable_pass'])-len(bad),len(bad)))
for t in bad: print('  NOT-PASSED',t,res.get(t))
PY
rm -f $OUT
