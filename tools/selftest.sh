#!/bin/bash
# usage: selftest.sh [filter]   -- must-fail corpus: every selftest/*.diff and seeded/*/patch.diff must make its property's
# check report a VIOLATION (on a scratch copy of /repo; /repo itself is never touched). Exit 1 if any is missed.
# Seeds may name extra properties to try in seeded/<id>/meta.json ("also"); the first listed property must catch it
# unless meta.json has "caught_by".
cd /verif || exit 2
FILTER=$1
fail=0
run() { # name prop patch
  local name=$1 prop=$2 patch=$3
  out=$(tools/mutcheck.sh $prop $patch 2>&1)
  if echo "$out" | grep -q "^VIOLATION property=$prop"; then
    n=$(echo "$out" | grep -c "^VIOLATION")
    r=$(echo "$out" | grep "^VIOLATION" | grep -vc "no-failing-input-found")
    echo "CAUGHT  $name by $prop ($n violations, $r reproduced on the real code)"
  else
    echo "MISSED  $name by $prop :: $(echo "$out" | tail -1 | cut -c1-160)"
    fail=1
  fi
}
for f in selftest/*.diff; do
  name=$(basename $f .diff)
  [ -n "$FILTER" ] && [[ "$name" != *$FILTER* ]] && continue
  run "selftest/$name" ${name%%-*} $f
done
for d in seeded/*/; do
  name=$(basename $d)
  [ -n "$FILTER" ] && [[ "$name" != *$FILTER* ]] && continue
  prop=$(python3 -c "import json,sys; m=json.load(open('$d/meta.json')); print(m.get('caught_by') or m['property'])")
  [ "$prop" = "none" ] && { echo "SKIP    seeded/$name (recorded as not caught)"; continue; }
  for p in $prop; do run "seeded/$name" $p $d/patch.diff; done
done
exit $fail
