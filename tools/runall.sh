#!/bin/bash
# usage: runall.sh [tier]  -- runs every claimed check on the unchanged tree; prints one summary line per property, non-zero exit if any alarms
cd /verif || exit 2
TIER=${1:-quick}
rc=0
for p in $(python3 -c "import json; print(' '.join(c['property_id'] for c in json.load(open('/verif/MANIFEST.json'))['checks']))"); do
  out=$(timeout 3000 ./check $p --tier $TIER 2>&1); e=$?
  echo "$out" | grep -E "^(VIOLATION|FAILED)" | cut -c1-200
  echo "$out" | tail -1 | cut -c1-200
  [ $e -ne 0 ] && { echo "ALARM $p exit=$e"; rc=1; }
done
exit $rc
