#!/bin/bash
# usage: verify_seed.sh <name> <mutation_dir> <demo_rel_path> <pkg_pattern_for_demo> <run_regex> [test_pkgs...]
# Confirms in a scratch worktree of /repo HEAD: builds; demo fails with patch; demo passes without; existing tests of given pkgs pass with patch.
NAME=$1; MD=$2; DEMO_REL=$3; DEMO_PKG=$4; RUN=$5; shift 5
export GOFLAGS=-mod=mod GOPROXY=off
WT=/tmp/seedchk-$NAME
git -C /repo worktree remove --force $WT 2>/dev/null; rm -rf $WT
git -C /repo worktree add -q --detach $WT HEAD || exit 9
cd $WT
DEMO_FILE=$MD/$(basename $DEMO_REL)
git apply $MD/patch.diff || { echo "PATCH-APPLY-FAILED"; git -C /repo worktree remove --force $WT; exit 3; }
go build ./... || { echo "BUILD-FAILED"; git -C /repo worktree remove --force $WT; exit 4; }
echo "== existing tests with patch: $@"
go test -vet=off -count=1 "$@" 2>&1 | grep -E "^(--- FAIL|FAIL|ok|panic)" | head -30
cp $DEMO_FILE $DEMO_REL
echo "== demo with patch (expect FAIL)"
go test -vet=off -count=1 -run "$RUN" $DEMO_PKG 2>&1 | grep -E "^(--- FAIL|FAIL|ok|panic|PASS)" | head
git apply -R $MD/patch.diff
echo "== demo without patch (expect ok)"
go test -vet=off -count=1 -run "$RUN" $DEMO_PKG 2>&1 | grep -E "^(--- FAIL|FAIL|ok|panic|PASS)" | head
cd /; git -C /repo worktree remove --force $WT
