#!/usr/bin/env python3
"""usage: smtfact.py file.smt2 'fact1' 'fact2' ...   -- debugging aid: is each SMT fact entailed under the antecedent of
the file's final goal (assert (not (=> ANTS GOAL)))?  prints unsat (entailed) / unknown / sat per fact."""
import sys,re,subprocess
def parse(s):
    toks=re.findall(r'\(|\)|\|[^|]*\||"(?:[^"]|"")*"|[^\s()]+',s)
    pos=0
    def p():
        nonlocal pos
        t=toks[pos]; pos+=1
        if t=='(':
            l=[]
            while toks[pos]!=')': l.append(p())
            pos+=1
            return l
        return t
    return p()
def show(x): return x if isinstance(x,str) else '('+' '.join(show(k) for k in x)+')'
fn=sys.argv[1]
lines=open(fn).read().split('\n')
gi=[i for i,l in enumerate(lines) if l.startswith('(assert (not ')][-1]
t=parse(lines[gi])
g=t[1][1]
ants=[]
while isinstance(g,list) and g[0]=='=>':
    ants+= [show(a) for a in g[1:-1]]; g=g[-1]
A='(and true '+' '.join(ants)+')'
print('goal consequent:',show(g)[:300])
for f in sys.argv[2:]:
    if f=='GOAL': f=show(g)
    ls=lines[:gi]+[f'(assert (not (=> {A} {f})))']+lines[gi+1:]
    open('/tmp/smtfact.smt2','w').write('\n'.join(ls))
    r=subprocess.run(['timeout','40','z3-new','-T:30','/tmp/smtfact.smt2'],capture_output=True,text=True).stdout.split('\n')[0]
    print(r,'::',f[:200])
