module gvc

go 1.25

require (
	golang.org/x/mod v0.25.0
	golang.org/x/sync v0.15.0
	golang.org/x/tools v0.33.0
)
