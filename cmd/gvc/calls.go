package main

import (
	"fmt"
	"go/token"
	"go/types"
	"sort"
	"strings"

	"golang.org/x/tools/go/ssa"
)

func fnKey(fn *ssa.Function) string {
	if o := fn.Origin(); o != nil {
		fn = o
	}
	if fn.Parent() != nil {
		// closure: parentKey$N
		name := fn.Name()
		if i := strings.LastIndex(name, "$"); i >= 0 {
			return fnKey(fn.Parent()) + name[i:]
		}
		return fnKey(fn.Parent()) + "$" + name
	}
	pkg := ""
	if fn.Pkg != nil {
		pkg = fn.Pkg.Pkg.Path()
	} else if fn.Object() != nil && fn.Object().Pkg() != nil {
		pkg = fn.Object().Pkg().Path()
	}
	if recv := fn.Signature.Recv(); recv != nil {
		t := deref(recv.Type())
		if n, ok := types.Unalias(t).(*types.Named); ok {
			return pkg + "." + n.Obj().Name() + "." + fn.Name()
		}
	}
	return pkg + "." + fn.Name()
}

func (a *Act) call(st *State, x *ssa.Call) Val {
	c := x.Common()
	var args []Val
	for _, arg := range c.Args {
		args = append(args, a.val(st, arg))
	}
	var fnv *Val
	if _, isB := c.Value.(*ssa.Builtin); !isB {
		v := a.val(st, c.Value)
		fnv = &v
	}
	return a.callCommon(st, c, args, fnv, x.Pos(), x)
}

// callCommon dispatches a call. fnv is the evaluated function value / receiver interface value.
func (a *Act) callCommon(st *State, c *ssa.CallCommon, args []Val, fnv *Val, pos token.Pos, instr *ssa.Call) Val {
	a.curCall = c
	sig := c.Signature()
	resT := types.Type(sig.Results())
	if sig.Results().Len() == 1 {
		resT = sig.Results().At(0).Type()
	}
	if c.IsInvoke() {
		// interface method call
		recvT := c.Value.Type()
		key := ifaceKey(recvT, c.Method.Name())
		all := append([]Val{*fnv}, args...)
		if con := a.eng.contracts[key]; con != nil {
			return a.applyContract(st, con, nil, sig, all, resT, pos, key)
		}
		return a.defaultCall(st, key, nil, all, resT, pos)
	}
	switch f := c.Value.(type) {
	case *ssa.Builtin:
		return a.builtin(st, f, args, c, resT, pos)
	case *ssa.Function:
		return a.callStatic(st, f, nil, args, sig, resT, pos)
	case *ssa.MakeClosure:
		fv := a.val(st, f)
		return a.callStatic(st, fv.Fn.Fn, fv.Fn.Bindings, args, sig, resT, pos)
	}
	// dynamic function value
	if fnv != nil && fnv.Fn != nil {
		if fnv.Fn.Fn != nil {
			return a.callStatic(st, fnv.Fn.Fn, fnv.Fn.Bindings, args, sig, resT, pos)
		}
		if fnv.Fn.Origin != "" {
			// calling a function-valued field: nil would panic
			if fnv.S != "" && fnv.Sort == sInt {
				a.vc.oblige(a.oblName("nopanic-nilfunc"), "nopanic", a.props, a.pos(pos), st.guard, not(eq(fnv.S, "0")), "call of nil function value "+shortName(fnv.Fn.Origin))
			}
			if isCancelFunc(c.Value.Type()) && a.eng.contracts[fnv.Fn.Origin] == nil {
				a.vc.noteAssumed("context.CancelFunc call treated as effect-free")
				return a.freshVal("cancel", resT)
			}
			if con := a.eng.contracts[fnv.Fn.Origin]; con != nil {
				return a.applyContract(st, con, nil, sig, args, resT, pos, fnv.Fn.Origin)
			}
			return a.defaultCall(st, fnv.Fn.Origin, nil, args, resT, pos)
		}
	}
	// cancelling a context has no effect on the memory the contracts talk about
	if isCancelFunc(c.Value.Type()) {
		a.vc.noteAssumed("context.CancelFunc call treated as effect-free")
		return a.freshVal("cancel", resT)
	}
	return a.defaultCall(st, "dynamic call "+c.Value.Name(), nil, args, resT, pos)
}

func isCancelFunc(t types.Type) bool {
	n, ok := types.Unalias(t).(*types.Named)
	return ok && n.Obj().Pkg() != nil && n.Obj().Pkg().Path() == "context" && n.Obj().Name() == "CancelFunc"
}

func ifaceKey(t types.Type, method string) string {
	if n, ok := types.Unalias(t).(*types.Named); ok {
		p := ""
		if n.Obj().Pkg() != nil {
			p = n.Obj().Pkg().Path() + "."
		}
		return p + n.Obj().Name() + "." + method
	}
	return "iface." + method
}

func (a *Act) callStatic(st *State, f *ssa.Function, bindings []Val, args []Val, sig *types.Signature, resT types.Type, pos token.Pos) Val {
	key := fnKey(f)
	if con := a.eng.contracts[key]; con != nil && !con.Inline {
		return a.applyContract(st, con, f, f.Signature, args, resT, pos, key)
	}
	if m := a.eng.models[key]; m != nil {
		return m(a, st, args, resT, pos)
	}
	// inline small repo functions / closures
	if a.canInline(f) {
		return a.inline(st, f, bindings, args, resT, pos)
	}
	return a.defaultCall(st, key, f, args, resT, pos)
}

func (a *Act) canInline(f *ssa.Function) bool {
	if len(f.Blocks) == 0 || a.depth >= 6 {
		return false
	}
	if con := a.eng.contracts[fnKey(f)]; con != nil && con.Inline {
		return true
	}
	// a callee with loops is inlined when the verified function's contract supplies invariants for them
	if t := a.top; hasLoop(f) {
		if t == nil {
			t = a
		}
		if t.con != nil && f.Pkg != nil && strings.HasPrefix(f.Pkg.Pkg.Path(), a.eng.modPath) {
			for _, c := range t.con.Invs {
				if c.LoopFn == f.Name() {
					return true
				}
			}
		}
	}
	if f.Parent() != nil {
		// closures defined in verified code: inline when small and loop-free
		return len(f.Blocks) <= 24 && !hasLoop(f)
	}
	if f.Pkg == nil || !strings.HasPrefix(f.Pkg.Pkg.Path(), a.eng.modPath) {
		return false
	}
	if hasLoop(f) || len(f.Blocks) > 12 {
		return false
	}
	// no recursion
	for t := a; t != nil; t = t.parent {
		if t.fn == f {
			return false
		}
	}
	return true
}

func hasLoop(f *ssa.Function) bool {
	for _, b := range f.Blocks {
		for _, s := range b.Succs {
			if s.Dominates(b) {
				return true
			}
		}
	}
	return false
}

func (a *Act) inline(st *State, f *ssa.Function, bindings []Val, args []Val, resT types.Type, pos token.Pos) Val {
	top := a.top
	if top == nil {
		top = a
	}
	in := &Act{eng: a.eng, vc: a.vc, fn: f, regs: map[ssa.Value]Val{}, cells: map[*ssa.Alloc]*Cell{}, depth: a.depth + 1,
		prefix: a.prefix, props: a.props, counts: top.counts, inlined: true, top: top, parent: a, writeLog: a.writeLog, callPos: pos}
	if a.callPos.IsValid() {
		in.callPos = a.callPos
	}
	in.params = map[string]Val{}
	for i, p := range f.Params {
		if i < len(args) {
			in.regs[p] = args[i]
			in.params[p.Name()] = args[i]
		}
	}
	for i, fv := range f.FreeVars {
		if i < len(bindings) {
			in.regs[fv] = bindings[i]
		}
	}
	in.entry = st.clone()
	in.analyzeCFG()
	savedDefers := st.defers
	st.defers = nil
	in.runBlocks(f.Blocks[0], st, nil, nil)
	if a.writeLog != nil && in.writeLog != nil && in.writeLog != a.writeLog {
		panic("writelog mismatch")
	}
	// merge return states
	if len(in.rets) == 0 {
		// callee never returns (always panics)
		st.guard = "false"
		return a.freshVal("noret", resT)
	}
	var sts []*State
	for _, r := range in.rets {
		sts = append(sts, r.st)
	}
	m := a.vc.mergeStates(sts)
	// result values
	var res Val
	nres := len(in.rets[0].vals)
	mergeVal := func(i int) Val {
		first := in.rets[0].vals[i]
		same := true
		for _, r := range in.rets[1:] {
			if r.vals[i].S != first.S {
				same = false
			}
		}
		if same {
			return first
		}
		if first.S == "" {
			a.vc.unsupported("inlined call returns engine-level pointer on several paths")
			return first
		}
		n := a.vc.fresh("ret_"+f.Name(), first.Sort)
		for _, r := range in.rets {
			a.vc.assume(r.st.guard, eq(n, r.vals[i].S))
		}
		return Val{S: n, Sort: first.Sort, T: first.T}
	}
	switch nres {
	case 0:
		res = Val{Sort: "Tuple", T: resT}
	case 1:
		res = mergeVal(0)
	default:
		var vs []Val
		for i := 0; i < nres; i++ {
			vs = append(vs, mergeVal(i))
		}
		res = Val{Tup: vs, Sort: "Tuple", T: resT}
	}
	*st = *m
	st.defers = savedDefers
	return res
}

// defaultCall handles calls without contract or model.
func (a *Act) defaultCall(st *State, key string, f *ssa.Function, args []Val, resT types.Type, pos token.Pos) Val {
	res := a.freshVal("call", resT)
	if a.eng.effectFree(key) {
		return res
	}
	a.vc.noteAssumed("uncontracted call havocs the heap: " + key)
	if a.vc.quiet == 0 && a.eng.verbose {
		a.vc.warn("havoc at %s: %s", a.pos(pos), key)
	}
	a.havocAllHeaps(st)
	ntop := a.vc.fresh("top", sInt)
	a.vc.assume("true", "(>= "+ntop+" "+st.top+")")
	st.top = ntop
	return res
}

// bumpTop advances the allocation watermark after a call: whatever the callee allocated (including its results)
// lies at or below the new watermark, so later allocations are distinct from it.
func (a *Act) bumpTop(st *State, res Val) {
	vc := a.vc
	ntop := vc.fresh("top", sInt)
	vc.assume("true", "(>= "+ntop+" "+st.top+")")
	var rec func(v Val)
	rec = func(v Val) {
		if v.Tup != nil {
			for _, x := range v.Tup {
				rec(x)
			}
			return
		}
		if v.T == nil || v.S == "" {
			return
		}
		if _, isTP := isTypeParam(v.T); isTP {
			return
		}
		switch v.T.Underlying().(type) {
		case *types.Pointer, *types.Map, *types.Chan:
			vc.assume("true", "(<= (base "+v.S+") "+ntop+")")
		case *types.Slice:
			vc.assume("true", "(<= (base (sl_arr "+v.S+")) "+ntop+")")
		case *types.Interface:
			vc.assume("true", "(<= (base (ival "+v.S+")) "+ntop+")")
		}
	}
	rec(res)
	st.top = ntop
}

// ---- contracts at call sites ----

// bindParams builds the spec variable map for a call of a contracted function.
func (a *Act) bindParams(con *Contract, f *ssa.Function, sig *types.Signature, args []Val) map[string]Val {
	vars := map[string]Val{}
	var names []string
	if len(con.Params) > 0 {
		names = con.Params
	} else if f != nil {
		for _, p := range f.Params {
			names = append(names, p.Name())
		}
	} else {
		if sig.Recv() != nil {
			names = append(names, sig.Recv().Name())
		}
		for i := 0; i < sig.Params().Len(); i++ {
			names = append(names, sig.Params().At(i).Name())
		}
		if len(names) == len(args)-1 {
			names = append([]string{"this"}, names...)
		}
	}
	for i, n := range names {
		if i < len(args) && n != "" && n != "_" {
			vars[n] = args[i]
		}
	}
	for i, v := range args {
		vars[fmt.Sprintf("$%d", i)] = v
	}
	return vars
}

func (a *Act) applyContract(st *State, con *Contract, f *ssa.Function, sig *types.Signature, args []Val, resT types.Type, pos token.Pos, key string) Val {
	vc := a.vc
	vars := a.bindParams(con, f, sig, args)
	short := key
	if i := strings.LastIndex(short, "/"); i >= 0 {
		short = short[i+1:]
	}
	env := &SpecEnv{a: a, vc: vc, eng: a.eng, st: st, old: st, vars: vars, pkg: a.eng.pkgOfKey(key, a)}
	// a concrete method that implements an interface contract: callers see both contracts
	var icon *Contract
	ivars := map[string]Val{}
	if ik := con.Opts["implements"]; ik != "" && f != nil {
		if !strings.Contains(ik, "/") && f.Pkg != nil {
			ik = f.Pkg.Pkg.Path() + "." + ik
		}
		if icon = a.eng.contracts[ik]; icon != nil && len(args) > 0 {
			iv := a.makeIface(st, args[0], a.eng.ifaceTypeOf(ik, f))
			for k, v := range vars {
				ivars[k] = v
			}
			for i, n := range icon.Params {
				if i == 0 {
					ivars[n] = iv
				} else if i < len(args) {
					ivars[n] = args[i]
				}
			}
			vars["self"] = iv
		}
	}
	envFor := func(c *Clause, base *SpecEnv) *SpecEnv {
		if icon == nil {
			return base
		}
		for _, lst := range [][]*Clause{icon.Requires, icon.Ensures, icon.Modifies} {
			for _, x := range lst {
				if x == c {
					n := *base
					n.vars = ivars
					return &n
				}
			}
		}
		return base
	}
	reqs := append(append([]*Clause(nil), con.Requires...), con.Represents...)
	if icon != nil {
		reqs = append(reqs, icon.Requires...)
	}
	// preconditions
	for i, c := range reqs {
		name := a.oblName("pre@" + short)
		_ = i
		v, err := envFor(c, env).evalBool(c.Expr)
		if err != nil {
			vc.oblige(name, "pre", a.props, a.pos(pos), st.guard, "false", "contract error: "+err.Error()+" in: "+c.Text)
			continue
		}
		n0 := len(vc.obls)
		vc.oblige(name, "pre", a.props, a.pos(pos), st.guard, v, "requires "+c.Text+"  ["+c.Line+"]")
		if len(c.Props) > 0 && len(vc.obls) > n0 {
			// requires[Cxx]: callers prove it under those properties only (assumed under the others)
			vc.obls[len(vc.obls)-1].OnlyProps = c.Props
		}
	}
	for _, c := range con.PanicsIf {
		v, err := env.evalBool(c.Expr)
		name := a.oblName("nopanic@" + short)
		if err != nil {
			vc.oblige(name, "nopanic", a.props, a.pos(pos), st.guard, "false", "contract error: "+err.Error())
			continue
		}
		vc.oblige(name, "nopanic", a.props, a.pos(pos), st.guard, not(v), "callee panics if "+c.Text)
	}
	pre := st.clone()
	// frame
	penv := env.with(pre)
	penv.old = pre // old(...) inside a modifies clause is the call's pre-state, not the partially havoced one
	a.applyModifies(st, con, penv)
	if icon != nil {
		ienv := *env
		ienv.vars = ivars
		ipenv := ienv.with(pre)
		ipenv.old = pre
		a.applyModifies(st, icon, ipenv)
	}
	// results
	res := a.freshVal("r_"+sanitize(shortName(key)), resT)
	post := &SpecEnv{a: a, vc: vc, eng: a.eng, st: st, old: pre, vars: map[string]Val{}, pkg: env.pkg}
	for k, v := range vars {
		post.vars[k] = v
	}
	bindResults(post.vars, res, sig)
	// The post-state's allocation watermark lies at or above the pre-state's: objects the callee allocated (fresh(x):
	// base(x) above the pre-state watermark) are below the new one. The watermark must move BEFORE the ensures are
	// evaluated: values they read from the heap get the fact base(x) <= watermark, and with the pre-state watermark that
	// contradicted fresh(x) for every element of a returned map or slice (making the rest of the path vacuous).
	a.bumpTop(st, res)
	prePrefix := len(vc.asserts)
	enss := append(append(append([]*Clause(nil), con.Represents...), con.Establishes...), con.Ensures...)
	if icon != nil {
		bindResults(ivars, res, sig)
		enss = append(enss, icon.Ensures...)
	}
	for _, c := range enss {
		v, err := envFor(c, post).evalBool(c.Expr)
		if err != nil {
			vc.oblige(a.oblName("contract-error"), "pre", a.props, a.pos(pos), st.guard, "false", "contract error in ensures of "+key+": "+err.Error()+" in: "+c.Text)
			continue
		}
		vc.assume(st.guard, v)
	}
	if con.Trusted {
		vc.noteAssumed("trusted contract: " + key)
	}
	for _, c := range con.Assumes {
		vc.noteAssumed("callee " + shortName(key) + " is verified under an assumption not checked here: " + c.Label + ": " + c.Text)
	}
	// vacuity guard per call site: assuming the callee's ensures must not make a feasible path infeasible
	if len(enss) > 0 && len(con.PanicsIf) == 0 && con.Opts["noreturn"] == "" {
		vc.coverStep(a.oblName("call-keeps-path "+shortName(key)), a.props, a.pos(pos), st.guard, "the ensures of "+shortName(key)+" are consistent with the path (no vacuity after the call)", prePrefix)
	}
	return res
}

func shortName(key string) string {
	if i := strings.LastIndex(key, "/"); i >= 0 {
		key = key[i+1:]
	}
	return key
}

func bindResults(vars map[string]Val, res Val, sig *types.Signature) {
	n := sig.Results().Len()
	if n == 1 {
		vars["result"] = res
		vars["result0"] = res
		if nm := sig.Results().At(0).Name(); nm != "" && nm != "_" {
			if _, clash := vars[nm]; !clash {
				vars[nm] = res
			}
		}
		return
	}
	vars["result"] = res
	for i := 0; i < n && i < len(res.Tup); i++ {
		vars[fmt.Sprintf("result%d", i)] = res.Tup[i]
		if nm := sig.Results().At(i).Name(); nm != "" && nm != "_" {
			if _, clash := vars[nm]; !clash {
				vars[nm] = res.Tup[i]
			}
		}
	}
}

// applyModifies havocs what the contract's modifies clauses name. env evaluates in the pre-state.
func (a *Act) applyModifies(st *State, con *Contract, env *SpecEnv) {
	vc := a.vc
	g := vc.g
	for _, m := range con.Modifies {
		switch {
		case m.Text == "nothing":
			continue
		case m.Text == "heap":
			a.havocAllHeaps(st)
			continue
		case m.Text == "memory":
			a.havocMemory(st, m.Except)
			continue
		case m.Text == "ghost":
			if gh, ok := g.ghosts[m.LoopFn]; ok {
				key, hs := ghostKey(gh)
				vc.setHeap(st, key, hs, vc.fresh("gh_"+gh.Name, hs))
				a.logHeap(key)
			}
			continue
		}
		func() {
			defer func() {
				if r := recover(); r != nil {
					if se, ok := r.(specErr); ok {
						vc.oblige(a.oblName("contract-error"), "pre", a.props, m.Line, st.guard, "false", "contract error in modifies "+m.Text+": "+se.msg)
						return
					}
					panic(r)
				}
			}()
			a.havocPlace(st, m, env)
		}()
	}
	_ = g
}

// havocPlace havocs one modifies target in st (evaluating the target in env's state).
func (a *Act) havocPlace(st *State, m *Clause, env *SpecEnv) {
	vc := a.vc
	g := vc.g
	switch m.Label {
	case "all-fields":
		v := env.eval(m.Expr)
		addr := v.S
		t := deref(v.T)
		if v.Addr != "" {
			addr, t = v.Addr, v.T
		}
		a.havocStruct(st, addr, t)
		return
	case "all-elems":
		v := env.force(env.eval(m.Expr))
		switch u := v.T.Underlying().(type) {
		case *types.Map:
			dk, ds, vk, vs, ks, vsrt := a.mapHeaps(st, u)
			D := vc.getHeap(st, dk, ds)
			V := vc.getHeap(st, vk, vs)
			L := vc.getHeap(st, a.mlKey(u), "(Array Int Int)")
			vc.setHeap(st, dk, ds, store(D, v.S, vc.fresh("hdom", "(Array "+ks+" Bool)")))
			vc.setHeap(st, vk, vs, store(V, v.S, vc.fresh("hval", "(Array "+ks+" "+vsrt+")")))
			nl := vc.fresh("hlen", sInt)
			vc.assume("true", "(>= "+nl+" 0)")
			vc.setHeap(st, a.mlKey(u), "(Array Int Int)", store(L, v.S, nl))
			a.logHeapAt(dk, v.S)
			a.logHeapAt(vk, v.S)
			a.logHeapAt(a.mlKey(u), v.S)
		case *types.Slice:
			a.havocRegion(st, "(sl_arr "+v.S+")", u.Elem())
		default:
			env.fail("[*] on non-map/slice")
		}
		return
	}
	// ghost field: name(x)
	if c, ok := m.Expr.(SCall); ok {
		if gh, ok := g.ghosts[c.Fun]; ok {
			k := env.force(env.eval(c.Args[0]))
			idx := k.S
			if k.Sort == sIface {
				idx = "(ival " + k.S + ")"
			}
			key, hs := ghostKey(gh)
			vc.setHeap(st, key, hs, store(vc.getHeap(st, key, hs), idx, vc.fresh("gh_"+gh.Name, gh.ValSort)))
			a.logHeapAt(key, idx)
			return
		}
	}
	// field place: X.f
	if s, ok := m.Expr.(SSel); ok {
		base := env.eval(s.X)
		t := base.T
		if t == nil {
			env.fail("modifies: untyped base")
		}
		path, _, ok := fieldPath(t, s.Name, env.pkg)
		if !ok {
			env.fail("modifies: no field %s", s.Name)
		}
		addr := base.S
		ct := deref(t)
		if base.Addr != "" {
			addr, ct = base.Addr, base.T
		}
		for n, i := range path {
			si := g.structInfoOf(ct)
			f := si.Fields[i]
			if n == len(path)-1 {
				if g.structInfoOf(f.T) != nil {
					a.havocStruct(st, app(g.fldFn(si, i), addr), f.T)
				} else {
					k, srt := g.fieldHeapKey(si, i)
					nv := a.freshVal("hf_"+f.Name, f.T)
					vc.setHeap(st, k, srt, store(vc.getHeap(st, k, srt), addr, nv.S))
					a.logHeapAt(k, addr)
				}
				return
			}
			addr = app(g.fldFn(si, i), addr)
			ct = f.T
		}
	}
	// local variable cell (used for result-parameter style)
	env.fail("unsupported modifies target %s", m.Text)
}

func (a *Act) havocStruct(st *State, addr string, t types.Type) {
	g := a.vc.g
	si := g.structInfoOf(t)
	if si == nil {
		k, hs := memKey(g.sortOf(t))
		nv := a.freshVal("hv", t)
		a.vc.setHeap(st, k, hs, store(a.vc.getHeap(st, k, hs), addr, nv.S))
		a.logHeapAt(k, addr)
		return
	}
	for i, f := range si.Fields {
		if g.structInfoOf(f.T) != nil {
			a.havocStruct(st, app(g.fldFn(si, i), addr), f.T)
		} else {
			k, srt := g.fieldHeapKey(si, i)
			nv := a.freshVal("hf_"+f.Name, f.T)
			a.vc.setHeap(st, k, srt, store(a.vc.getHeap(st, k, srt), addr, nv.S))
			a.logHeapAt(k, addr)
		}
	}
}

// havocRegion havocs all elements of the array arr (element type et).
func (a *Act) havocRegion(st *State, arr string, et types.Type) {
	vc := a.vc
	arrN := vc.define("harr", sInt, arr)
	// several element fields can share one heap key (e.g. two fields of the same nested struct type)
	byKey := map[string][]elemKey{}
	var order []string
	for _, ek := range a.elemKeys(et) {
		if _, ok := byKey[ek.key]; !ok {
			order = append(order, ek.key)
		}
		byKey[ek.key] = append(byKey[ek.key], ek)
	}
	for _, k := range order {
		eks := byKey[k]
		old := vc.getHeap(st, k, eks[0].sort)
		nh := vc.fresh("Hr_"+k, eks[0].sort)
		var members []string
		for _, ek := range eks {
			members = append(members, vc.g.regionMember("x", arrN, ek.path))
		}
		vc.assume("true", fmt.Sprintf("(forall ((x Int)) (! (=> (not %s) (= (select %s x) (select %s x))) :pattern ((select %s x))))", or(members...), nh, old, nh))
		st.heap[k] = nh
		a.logHeap(k)
	}
}

// ---- return / panic ----

func (a *Act) doReturn(st *State, vals []Val, pos token.Pos, ri *ssa.Return) {
	if a.inlined {
		a.rets = append(a.rets, retRec{st.clone(), vals})
		return
	}
	a.rets = append(a.rets, retRec{st.clone(), vals})
	if a.con == nil {
		return
	}
	vc := a.vc
	env := a.specEnv(st)
	sig := a.fn.Signature
	var res Val
	if len(vals) == 1 {
		res = vals[0]
	} else {
		res = Val{Tup: vals, Sort: "Tuple"}
	}
	bindResults(env.vars, res, sig)
	// represents: re-establish coupling of model fields at exit
	for _, c := range a.con.Represents {
		a.establishRepresents(st, c, env)
	}
	for _, c := range a.con.Establishes {
		a.establishRepresents(st, c, env)
	}
	ens := a.con.Ensures
	if a.ifaceCon != nil {
		ens = append(append([]*Clause(nil), a.ifaceCon.Ensures...), ens...)
	}
	for i, c := range ens {
		label := c.Label
		if label == "" {
			label = fmt.Sprint(i + 1)
		}
		name := fmt.Sprintf("%s/post#%s", a.prefix, label)
		if len(a.fnReturns()) > 1 {
			name = fmt.Sprintf("%s@ret%d", name, a.retIndex(ri))
		}
		props := a.props
		if len(c.Props) > 0 {
			props = c.Props
		}
		if hasProp(c.Props, "trusted") {
			// clause assumed by callers but not proved here (e.g. it depends on a dynamically dispatched callee)
			vc.noteAssumed("trusted postcondition of " + a.prefix + ": " + c.Text)
			continue
		}
		if len(c.Props) > 0 {
			props = a.props
		}
		v, err := a.clauseEnv(env, c).evalBool(c.Expr)
		if err != nil {
			vc.oblige(name, "post", props, c.Line, st.guard, "false", "contract error: "+err.Error()+" in: "+c.Text)
			continue
		}
		// postconditions are checked in order; each one may use the earlier ones (a failing one is reported anyway)
		vc.oblige(name, "post", props, a.pos(pos)+" ["+c.Line+"]", st.guard, v, "ensures "+c.Text)
		if n := len(vc.obls); n > 0 && vc.quiet == 0 {
			vc.obls[n-1].Clause = c
			if len(c.Props) > 0 && vc.obls[n-1].Name == name {
				vc.obls[n-1].OnlyProps = c.Props
			}
		}
	}
	a.frameCheck(st, env, pos, ri)
}

func (a *Act) fnReturns() []*ssa.Return {
	if a.returns != nil {
		return a.returns
	}
	for _, b := range a.fn.Blocks {
		if len(b.Instrs) > 0 {
			if r, ok := b.Instrs[len(b.Instrs)-1].(*ssa.Return); ok {
				a.returns = append(a.returns, r)
			}
		}
	}
	if a.returns == nil {
		a.returns = []*ssa.Return{}
	}
	return a.returns
}

func (a *Act) doPanic(st *State, x *ssa.Panic) {
	vc := a.vc
	top := a.top
	if top == nil {
		top = a
	}
	goal := "false"
	desc := "explicit panic unreachable"
	if top.con != nil && top.con.Opts["explicit-panics"] == "allowed" {
		// the contract declares this function's explicit panic statements out of scope (recorded as an assumption)
		vc.noteAssumed("explicit panic statements of " + top.prefix + " are not excluded (option explicit-panics allowed)")
		return
	}
	if top.con != nil && len(top.con.PanicsIf) > 0 && !a.inlined {
		env := a.specEnv(a.entry)
		env.old = a.entry
		var ds []string
		for _, c := range top.con.PanicsIf {
			v, err := env.evalBool(c.Expr)
			if err == nil {
				ds = append(ds, v)
			}
		}
		goal = or(ds...)
		desc = "explicit panic only under panics_if"
	}
	n0 := len(vc.obls)
	vc.oblige(a.oblName("nopanic-explicit"), "nopanic", a.props, a.pos(x.Pos()), st.guard, goal, desc+": "+panicText(x))
	if top.con != nil && top.con.Opts["explicit-panics-under"] != "" && len(vc.obls) > n0 {
		// "option explicit-panics-under C09 ...": the function is checked under several properties but its explicit panic
		// statements are the business of these only (under the others the panic is assumed unreachable)
		vc.obls[len(vc.obls)-1].OnlyProps = strings.Fields(strings.ReplaceAll(top.con.Opts["explicit-panics-under"], ",", " "))
	}
}

func panicText(x *ssa.Panic) string {
	// try to find a string constant feeding the panic value
	var find func(v ssa.Value, d int) string
	find = func(v ssa.Value, d int) string {
		if d > 4 {
			return ""
		}
		switch y := v.(type) {
		case *ssa.Const:
			if y.Value != nil {
				s := y.Value.ExactString()
				if len(s) > 70 {
					s = s[:70]
				}
				return s
			}
		case *ssa.MakeInterface:
			return find(y.X, d+1)
		case *ssa.ChangeInterface:
			return find(y.X, d+1)
		case *ssa.Call:
			for _, arg := range y.Call.Args {
				if s := find(arg, d+1); s != "" {
					return s
				}
			}
		}
		return ""
	}
	return find(x.X, 0)
}

// frameCheck: every heap location written by the function is covered by a modifies clause or is fresh.
func (a *Act) retIndex(ri *ssa.Return) int {
	rs := append([]*ssa.Return(nil), a.fnReturns()...)
	sort.SliceStable(rs, func(i, j int) bool { return rs[i].Pos() < rs[j].Pos() })
	for i, r := range rs {
		if r == ri {
			return i + 1
		}
	}
	return 0
}

func (a *Act) frameCheck(st *State, env *SpecEnv, pos token.Pos, ri *ssa.Return) {
	if a.con == nil || a.con.Trusted || a.con.Opts["frame"] == "off" {
		return
	}
	vc := a.vc
	allowed, anyKey, whole := a.frameAllowed()
	if whole {
		return
	}
	for _, k := range sortedKeys(a.written) {
		if !a.frameMemo.framed(k) {
			continue
		}
		if strings.HasPrefix(k, "IT:") || k == "G:chancap" || k == "G:held" || k == "G:lockuses" || k == "G:nsent" {
			continue
		}
		if a.modelFieldKey(k) {
			continue
		}
		if k == "G:chanclosed" && !a.didClose {
			// no close() in this function: the only changes are the environment's (a ReqResp responder), not writes of the function
			continue
		}
		srt := vc.heapSorts[k]
		h0 := vc.getHeap(a.entry, k, srt)
		h1 := vc.getHeap(st, k, srt)
		if h0 == h1 {
			continue
		}
		if anyKey[k] {
			continue
		}
		var conds []string
		conds = append(conds, "(<= (base x) "+a.entry.top+")")
		for _, ad := range allowed[k] {
			conds = append(conds, not(eq("x", ad)))
		}
		goal := fmt.Sprintf("(forall ((x Int)) (=> %s (= (select %s x) (select %s x))))", and(conds...), h1, h0)
		name := fmt.Sprintf("%s/frame %s", a.prefix, k)
		if len(a.fnReturns()) > 1 {
			name = fmt.Sprintf("%s@ret%d", name, a.retIndex(ri))
		}
		vc.obligeNoAssume(name, "frame", a.props, a.pos(pos), st.guard, goal, "only locations named in modifies (or freshly allocated) change in "+k)
	}
}

type frameInfo struct {
	allowed map[string][]string
	anyKey  map[string]bool
	whole   bool
	memory  bool     // "modifies memory": every non-ghost heap may change; ghost heaps are framed
	keep    []string // ... except the fields of these struct types
}

// framed reports whether heap key k is subject to the frame check under this frame.
func (fi *frameInfo) framed(k string) bool {
	if !fi.memory {
		return true
	}
	return strings.HasPrefix(k, "G:") || keptKey(k, fi.keep)
}

// keptKey: k is a field heap of one of the named struct types (matched by the type's unqualified name).
func keptKey(k string, types []string) bool {
	if strings.HasPrefix(k, "G:") {
		// "ghost <name>" entries keep a whole ghost heap
		for _, t := range types {
			if strings.HasPrefix(t, "ghost ") && strings.TrimSpace(t[6:]) == k[2:] {
				return true
			}
		}
		return false
	}
	if !strings.HasPrefix(k, "F:") {
		return false
	}
	srt := k[2:]
	if i := strings.LastIndex(srt, "."); i >= 0 {
		srt = srt[:i]
	}
	for _, t := range types {
		if srt == t || strings.HasSuffix(srt, "_"+t) {
			return true
		}
	}
	return false
}

// frameAllowed evaluates the modifies clauses in the entry state: allowed addresses per heap key.
func (a *Act) frameAllowed() (map[string][]string, map[string]bool, bool) {
	if a.frameMemo != nil {
		return a.frameMemo.allowed, a.frameMemo.anyKey, a.frameMemo.whole
	}
	fi := &frameInfo{allowed: map[string][]string{}, anyKey: map[string]bool{}}
	a.frameMemo = fi
	pre := a.specEnv(a.entry)
	pre.old = a.entry
	mods := a.con.Modifies
	if a.ifaceCon != nil {
		mods = append(append([]*Clause(nil), mods...), a.ifaceCon.Modifies...)
	}
	for _, m := range mods {
		if m.Text == "nothing" {
			continue
		}
		if m.Text == "heap" {
			fi.whole = true
			continue
		}
		if m.Text == "memory" {
			fi.memory = true
			fi.keep = append(fi.keep, m.Except...)
			continue
		}
		if m.Text == "ghost" {
			fi.anyKey["G:"+m.LoopFn] = true
			continue
		}
		func() {
			defer func() {
				if r := recover(); r != nil {
					if _, ok := r.(specErr); ok {
						return
					}
					panic(r)
				}
			}()
			a.placeKeys(m, a.clauseEnv(pre, m), fi.allowed, fi.anyKey)
		}()
	}
	return fi.allowed, fi.anyKey, fi.whole
}

// placeKeys records which heap keys/addresses a modifies clause allows.
func (a *Act) placeKeys(m *Clause, env *SpecEnv, allowed map[string][]string, anyKey map[string]bool) {
	g := a.vc.g
	var addStruct func(addr string, t types.Type)
	addStruct = func(addr string, t types.Type) {
		si := g.structInfoOf(t)
		if si == nil {
			k, _ := memKey(g.sortOf(t))
			allowed[k] = append(allowed[k], addr)
			return
		}
		for i, f := range si.Fields {
			if g.structInfoOf(f.T) != nil {
				addStruct(app(g.fldFn(si, i), addr), f.T)
			} else {
				k, _ := g.fieldHeapKey(si, i)
				allowed[k] = append(allowed[k], addr)
			}
		}
	}
	switch m.Label {
	case "all-fields":
		v := env.eval(m.Expr)
		addr, t := v.S, deref(v.T)
		if v.Addr != "" {
			addr, t = v.Addr, v.T
		}
		addStruct(addr, t)
		return
	case "all-elems":
		v := env.force(env.eval(m.Expr))
		switch u := v.T.Underlying().(type) {
		case *types.Map:
			dk, _, vk, _, _, _ := a.mapHeaps(env.st, u)
			allowed[dk] = append(allowed[dk], v.S)
			allowed[vk] = append(allowed[vk], v.S)
			allowed[a.mlKey(u)] = append(allowed[a.mlKey(u)], v.S)
		case *types.Slice:
			// element region: approximate by allowing the whole key (checked by base in callers)
			var collect func(t types.Type)
			collect = func(t types.Type) {
				if si := g.structInfoOf(t); si != nil {
					for i, f := range si.Fields {
						if g.structInfoOf(f.T) != nil {
							collect(f.T)
						} else {
							k, _ := g.fieldHeapKey(si, i)
							anyKey[k] = true
						}
					}
					return
				}
				k, _ := memKey(g.sortOf(t))
				anyKey[k] = true
			}
			collect(u.Elem())
		}
		return
	}
	if c, ok := m.Expr.(SCall); ok {
		if gh, ok := g.ghosts[c.Fun]; ok {
			k := env.force(env.eval(c.Args[0]))
			idx := k.S
			if k.Sort == sIface {
				idx = "(ival " + k.S + ")"
			}
			key, _ := ghostKey(gh)
			allowed[key] = append(allowed[key], idx)
			return
		}
	}
	if s, ok := m.Expr.(SSel); ok {
		base := env.eval(s.X)
		path, _, ok := fieldPath(base.T, s.Name, env.pkg)
		if !ok {
			return
		}
		addr, ct := base.S, deref(base.T)
		if base.Addr != "" {
			addr, ct = base.Addr, base.T
		}
		for n, i := range path {
			si := g.structInfoOf(ct)
			f := si.Fields[i]
			if n == len(path)-1 {
				if g.structInfoOf(f.T) != nil {
					addStruct(app(g.fldFn(si, i), addr), f.T)
				} else {
					k, _ := g.fieldHeapKey(si, i)
					allowed[k] = append(allowed[k], addr)
				}
				return
			}
			addr = app(g.fldFn(si, i), addr)
			ct = f.T
		}
	}
}

// modelFieldKey reports whether heap key k is a model field this function (re)defines via represents/establishes.
func (a *Act) modelFieldKey(k string) bool {
	if a.con == nil {
		return false
	}
	for _, lst := range [][]*Clause{a.con.Represents, a.con.Establishes} {
		for _, c := range lst {
			if b, ok := c.Expr.(SBin); ok {
				if call, ok := b.L.(SCall); ok && "G:"+call.Fun == k {
					return true
				}
			}
		}
	}
	return false
}

func (a *Act) establishRepresents(st *State, c *Clause, env *SpecEnv) {
	// represents ghostname(x) == expr : set ghost heap at x to expr evaluated in the exit state
	b, ok := c.Expr.(SBin)
	if !ok || b.Op != "==" {
		return
	}
	call, ok := b.L.(SCall)
	if !ok {
		return
	}
	gh, ok := a.vc.g.ghosts[call.Fun]
	if !ok {
		return
	}
	defer func() {
		if r := recover(); r != nil {
			if se, ok := r.(specErr); ok {
				a.vc.oblige(a.oblName("contract-error"), "post", a.props, c.Line, st.guard, "false", "contract error in represents: "+se.msg)
				return
			}
			panic(r)
		}
	}()
	k := env.force(env.eval(call.Args[0]))
	idx := k.S
	if k.Sort == sIface {
		idx = "(ival " + k.S + ")"
	}
	v := env.force(env.eval(b.R))
	key, hs := ghostKey(gh)
	a.vc.setHeap(st, key, hs, store(a.vc.getHeap(st, key, hs), idx, v.S))
}
