package main

import (
	"fmt"
	"go/types"
	"sort"
	"strings"
)

// Val is a symbolic value: an SMT term with its SMT sort and (when known) Go type.
type Val struct {
	S    string     // SMT term
	Sort string     // SMT sort
	T    types.Type // Go type; nil for spec-only values
	P    *Ptr       // engine-level pointer description (when S is not a plain address)
	Tup  []Val      // tuple components (multi-result calls, Next, comma-ok)
	Fn   *FnVal     // engine-level function value (closure / function constant)
	Addr string     // spec evaluation: struct value located at this address (lazy)
	Guard string    // address of the mutex guarding the field this value was loaded from
	Under *Val      // interface values built by MakeInterface: the concrete value (with its Go type)
}

// Ptr describes pointers the engine tracks outside SMT.
type Ptr struct {
	Kind  int // ptrLocal, ptrField
	Local *Cell
	Path  []int      // field path inside the local struct value
	Base  string     // address of the containing struct (ptrField)
	ST    types.Type // struct type containing the field (ptrField)
	Field int
}

const (
	ptrLocal = iota + 1
	ptrField
)

// Cell is a non-escaping local variable.
type Cell struct {
	Name string
	T    types.Type
	ID   int
}

const (
	sInt   = "Int"
	sBool  = "Bool"
	sStr   = "Str"
	sSlice = "Slice"
	sIface = "Iface"
	sReal  = "Real"
)

func sanitize(s string) string {
	var b strings.Builder
	for _, r := range s {
		switch {
		case r >= 'a' && r <= 'z', r >= 'A' && r <= 'Z', r >= '0' && r <= '9', r == '_':
			b.WriteRune(r)
		case r == '.' || r == '/' || r == '-':
			b.WriteByte('_')
		case r == '*':
			b.WriteString("p_")
		case r == '[' || r == ']' || r == ',' || r == ' ' || r == '(' || r == ')' || r == '{' || r == '}' || r == ';':
			b.WriteByte('_')
		default:
			fmt.Fprintf(&b, "x%x", r)
		}
	}
	return b.String()
}

// Globals collects sort/function declarations shared by all VCs of a run.
type Globals struct {
	decls     []string // in dependency order
	seen      map[string]bool
	structs   map[string]*structInfo // by sort name
	structOf  map[string]string      // types.Type string -> sort
	typeTags  map[string]int
	tagTypes  []types.Type
	strLits   map[string]string
	strOrder  []string
	fldFns    map[string]bool
	fldTag    map[string]int
	axioms    []gAxiom // quantified background axioms, included when their token occurs in the script
	specFns   map[string]*SpecFn
	ghosts    map[string]*Ghost
	tpSorts   map[string]bool
	anonCount int
}

type gAxiom struct{ tok, text string }

func (g *Globals) addAxiom(tok, text string) {
	for _, a := range g.axioms {
		if a.text == text {
			return
		}
	}
	g.axioms = append(g.axioms, gAxiom{tok, text})
}

type structInfo struct {
	Sort   string
	T      types.Type // named or struct
	ST     *types.Struct
	Fields []fieldInfo
}

type fieldInfo struct {
	Name string
	T    types.Type
	Sort string
	Sel  string // selector function
}

func newGlobals() *Globals {
	g := &Globals{
		seen:     map[string]bool{},
		structs:  map[string]*structInfo{},
		structOf: map[string]string{},
		typeTags: map[string]int{},
		strLits:  map[string]string{},
		fldFns:   map[string]bool{},
		fldTag:   map[string]int{},
		specFns:  map[string]*SpecFn{},
		ghosts:   map[string]*Ghost{},
		tpSorts:  map[string]bool{},
	}
	g.decl("sort Str", "(declare-sort Str 0)")
	g.decl("dt Slice", "(declare-datatypes ((Slice 0)) (((mk_Slice (sl_arr Int) (sl_off Int) (sl_len Int) (sl_cap Int)))))")
	g.decl("dt Iface", "(declare-datatypes ((Iface 0)) (((mk_Iface (itag Int) (ival Int)))))")
	g.decl("fn strlen", "(declare-fun strlen (Str) Int)")
	g.decl("fn tag", "(declare-fun tag (Int) Int)")
	g.decl("fn elem", "(declare-fun elem (Int Int) Int)")
	g.decl("fn elem_arr", "(declare-fun elem_arr (Int) Int)")
	g.decl("fn elem_idx", "(declare-fun elem_idx (Int) Int)")
	g.decl("fn base", "(declare-fun base (Int) Int)")
	g.decl("fn strlt", "(declare-fun strlt (Str Str) Bool)")
	g.decl("fn strcat", "(declare-fun strcat (Str Str) Str)")
	g.decl("fn str_of", "(declare-fun str_of ((Array Int Int) Int Int Int) Str)")
	g.decl("fn str_at", "(declare-fun str_at (Str Int) Int)")
	g.addAxiom("(elem ", "(forall ((a Int) (i Int)) (! (and (= (elem_arr (elem a i)) a) (= (elem_idx (elem a i)) i) (= (tag (elem a i)) 1) (= (base (elem a i)) (base a)) (not (= (elem a i) 0))) :pattern ((elem a i))))")
	// selem: address of element i of a slice value. Kept as a function symbol so that quantifier patterns over slice
	// elements contain no arithmetic (patterns with + are matched syntactically and break on argument reordering).
	g.decl("fn selem", "(declare-fun selem (Slice Int) Int)")
	g.addAxiom("(selem ", "(forall ((s Slice) (i Int)) (! (= (selem s i) (elem (sl_arr s) (+ (sl_off s) i))) :pattern ((selem s i))))")
	g.addAxiom("(strlen ", "(forall ((s Str)) (! (>= (strlen s) 0) :pattern ((strlen s))))")
	return g
}

func (g *Globals) decl(key, text string) {
	if g.seen[key] {
		return
	}
	g.seen[key] = true
	g.decls = append(g.decls, text)
}

// strLit returns the SMT constant for a Go string literal.
func (g *Globals) strLit(s string) string {
	if n, ok := g.strLits[s]; ok {
		return n
	}
	n := fmt.Sprintf("strlit!%d", len(g.strLits))
	if s == "" {
		n = "str!empty"
	}
	g.strLits[s] = n
	g.strOrder = append(g.strOrder, s)
	return n
}

func (g *Globals) typeTag(t types.Type) int {
	k := types.TypeString(t, nil)
	if n, ok := g.typeTags[k]; ok {
		return n
	}
	n := len(g.typeTags) + 1
	g.typeTags[k] = n
	g.tagTypes = append(g.tagTypes, t)
	return n
}

func isTypeParam(t types.Type) (*types.TypeParam, bool) {
	tp, ok := types.Unalias(t).(*types.TypeParam)
	return tp, ok
}

// sortOf maps a Go type to an SMT sort, declaring datatypes on demand.
func (g *Globals) sortOf(t types.Type) string {
	if t == nil {
		return sInt
	}
	if tp, ok := isTypeParam(t); ok {
		n := "TP_" + sanitize(tp.Obj().Name())
		if !g.tpSorts[n] {
			g.tpSorts[n] = true
			g.decl("sort "+n, "(declare-sort "+n+" 0)")
		}
		return n
	}
	switch u := t.Underlying().(type) {
	case *types.Basic:
		switch {
		case u.Info()&types.IsBoolean != 0:
			return sBool
		case u.Info()&types.IsString != 0:
			return sStr
		case u.Info()&types.IsFloat != 0, u.Info()&types.IsComplex != 0:
			return sReal
		default:
			return sInt
		}
	case *types.Pointer, *types.Map, *types.Chan, *types.Signature:
		return sInt
	case *types.Slice:
		return sSlice
	case *types.Interface:
		return sIface
	case *types.Array:
		return "(Array Int " + g.sortOf(u.Elem()) + ")"
	case *types.Struct:
		return g.structSort(t, u)
	case *types.Tuple:
		return "Tuple"
	}
	return sInt
}

func (g *Globals) structSort(t types.Type, st *types.Struct) string {
	key := types.TypeString(t, nil)
	if s, ok := g.structOf[key]; ok {
		return s
	}
	var name string
	if n, ok := types.Unalias(t).(*types.Named); ok {
		pk := ""
		if n.Obj().Pkg() != nil {
			pk = n.Obj().Pkg().Name() + "_"
		}
		name = "S_" + pk + sanitize(n.Obj().Name())
		if n.TypeArgs() != nil && n.TypeArgs().Len() > 0 {
			name += "_" + sanitize(types.TypeString(n.TypeArgs().At(0), nil))
			if len(name) > 60 {
				name = name[:60]
			}
		}
		for g.structs[name] != nil {
			name += "x"
		}
	} else {
		g.anonCount++
		name = fmt.Sprintf("S_anon%d", g.anonCount)
	}
	g.structOf[key] = name
	si := &structInfo{Sort: name, T: t, ST: st}
	g.structs[name] = si
	var fs []string
	for i := 0; i < st.NumFields(); i++ {
		f := st.Field(i)
		fsort := g.sortOf(f.Type())
		fname := f.Name()
		if fname == "_" {
			fname = fmt.Sprintf("blank%d", i)
		}
		sel := fmt.Sprintf("%s_f_%s", name, sanitize(fname))
		si.Fields = append(si.Fields, fieldInfo{Name: f.Name(), T: f.Type(), Sort: fsort, Sel: sel})
		fs = append(fs, fmt.Sprintf("(%s %s)", sel, fsort))
	}
	if len(fs) == 0 {
		g.decl("dt "+name, fmt.Sprintf("(declare-datatypes ((%s 0)) (((mk_%s))))", name, name))
	} else {
		g.decl("dt "+name, fmt.Sprintf("(declare-datatypes ((%s 0)) (((mk_%s %s))))", name, name, strings.Join(fs, " ")))
	}
	return name
}

func (g *Globals) structInfoOf(t types.Type) *structInfo {
	st, ok := t.Underlying().(*types.Struct)
	if !ok {
		return nil
	}
	s := g.structSort(t, st)
	return g.structs[s]
}

// fldFn returns the address function for a struct-typed (or array/other aggregate addressable) field.
func (g *Globals) fldFn(si *structInfo, i int) string {
	n := fmt.Sprintf("fld_%s_%s", si.Sort[2:], sanitize(si.Fields[i].Name))
	if !g.fldFns[n] {
		g.fldFns[n] = true
		id := len(g.fldFns) + 1
		g.fldTag[n] = id
		g.decl("fn "+n, fmt.Sprintf("(declare-fun %s (Int) Int)", n))
		g.decl("fn "+n+"_inv", fmt.Sprintf("(declare-fun %s_inv (Int) Int)", n))
		g.addAxiom("("+n+" ", fmt.Sprintf("(forall ((a Int)) (! (and (= (%s_inv (%s a)) a) (= (tag (%s a)) %d) (= (base (%s a)) (base a)) (not (= (%s a) 0))) :pattern ((%s a))))", n, n, n, id, n, n, n))
	}
	return n
}

// heapKey identifiers and their sorts.
func (g *Globals) fieldHeapKey(si *structInfo, i int) (string, string) {
	return "F:" + si.Sort + "." + si.Fields[i].Name, "(Array Int " + si.Fields[i].Sort + ")"
}

func memKey(sort string) (string, string) {
	return "E:" + sort, "(Array Int " + sort + ")"
}

func mapKeys(ks, vs string) (dom, val, ln string) {
	return "MD:" + ks, "MV:" + ks + ":" + vs, "ML"
}

func intLit(n int64) string {
	if n < 0 {
		return fmt.Sprintf("(- %d)", -n)
	}
	return fmt.Sprintf("%d", n)
}

func and(xs ...string) string {
	var ys []string
	for _, x := range xs {
		if x == "true" || x == "" {
			continue
		}
		if x == "false" {
			return "false"
		}
		ys = append(ys, x)
	}
	switch len(ys) {
	case 0:
		return "true"
	case 1:
		return ys[0]
	}
	return "(and " + strings.Join(ys, " ") + ")"
}

func or(xs ...string) string {
	var ys []string
	for _, x := range xs {
		if x == "false" || x == "" {
			continue
		}
		if x == "true" {
			return "true"
		}
		ys = append(ys, x)
	}
	switch len(ys) {
	case 0:
		return "false"
	case 1:
		return ys[0]
	}
	return "(or " + strings.Join(ys, " ") + ")"
}

func not(x string) string {
	switch x {
	case "true":
		return "false"
	case "false":
		return "true"
	}
	if strings.HasPrefix(x, "(not ") && balanced(x[5:len(x)-1]) {
		return x[5 : len(x)-1]
	}
	return "(not " + x + ")"
}

func balanced(s string) bool {
	d := 0
	for _, c := range s {
		if c == '(' {
			d++
		} else if c == ')' {
			d--
			if d < 0 {
				return false
			}
		}
	}
	return d == 0
}

func implies(a, b string) string {
	if a == "true" {
		return b
	}
	if b == "true" {
		return "true"
	}
	return "(=> " + a + " " + b + ")"
}

func eq(a, b string) string {
	if a == b {
		return "true"
	}
	return "(= " + a + " " + b + ")"
}

func ite(c, a, b string) string {
	if c == "true" {
		return a
	}
	if c == "false" {
		return b
	}
	if a == b {
		return a
	}
	return "(ite " + c + " " + a + " " + b + ")"
}

func app(f string, args ...string) string {
	if len(args) == 0 {
		return f
	}
	return "(" + f + " " + strings.Join(args, " ") + ")"
}

func sel(a, i string) string      { return "(select " + a + " " + i + ")" }
func store(a, i, v string) string { return "(store " + a + " " + i + " " + v + ")" }

// background emits string-literal facts and axioms; called when a script is produced.
func (g *Globals) background(body string) []string {
	var out []string
	var names []string
	for _, s := range g.strOrder {
		n := g.strLits[s]
		out = append(out, fmt.Sprintf("(declare-const %s Str)", n))
		out = append(out, fmt.Sprintf("(assert (= (strlen %s) %d))", n, len(s)))
		names = append(names, n)
	}
	if len(names) > 1 {
		out = append(out, "(assert (distinct "+strings.Join(names, " ")+"))")
	}
	if _, ok := g.strLits[""]; ok && strings.Contains(body, "(strlen ") {
		out = append(out, "(assert (forall ((s Str)) (! (=> (= (strlen s) 0) (= s str!empty)) :pattern ((strlen s)))))")
	}
	for _, a := range g.axioms {
		if strings.Contains(body, a.tok) {
			out = append(out, "(assert "+a.text+")")
		}
	}
	return out
}

func sortedKeys[V any](m map[string]V) []string {
	ks := make([]string, 0, len(m))
	for k := range m {
		ks = append(ks, k)
	}
	sort.Strings(ks)
	return ks
}
