package main

import (
	"fmt"
	"go/constant"
	"go/token"
	"go/types"
	"sort"
	"strings"

	"golang.org/x/tools/go/ssa"
)

// Structural obligations: decided by the generator itself over the SSA of the real functions (no SMT).
// They implement the format-string side conditions and field-coverage conditions of C15 (DESIGN.md section 4, C15):
// the unique-parse meta-lemma reduces injectivity of a constant-format Fprintf to (a) every verb being followed by a
// literal that starts outside the verb's alphabet, (b) every argument being the field its label names, all distinct,
// and (c) every header field being read.

type fmtCall struct {
	pos    string
	format string
	args   []string // provenance path of each argument
	instr  *ssa.Call
}

var structVC *VC // carries the function for scenario replays of structural obligations

func structObl(name string, props []string, pos string, ok bool, desc, detail string) *Obl {
	o := &Obl{Name: name, Kind: "structural", Props: props, Pos: pos, Desc: desc, Solver: "structural", Goal: "true", vc: structVC}
	if ok {
		o.Result = "unsat"
	} else {
		o.Result = "sat"
		o.Out = "structural obligation failed: " + detail
	}
	return o
}

// provenance describes where an SSA value comes from: a field path of a parameter, a local variable, or "?".
func provenance(v ssa.Value, depth int) string {
	if depth > 12 {
		return "?"
	}
	switch x := v.(type) {
	case *ssa.MakeInterface:
		return provenance(x.X, depth+1)
	case *ssa.ChangeType:
		return provenance(x.X, depth+1)
	case *ssa.Convert:
		return provenance(x.X, depth+1)
	case *ssa.UnOp:
		if x.Op == token.MUL {
			return provenance(x.X, depth+1)
		}
	case *ssa.FieldAddr:
		st := deref(x.X.Type()).Underlying().(*types.Struct)
		return provenance(x.X, depth+1) + "." + st.Field(x.Field).Name()
	case *ssa.Field:
		st := x.X.Type().Underlying().(*types.Struct)
		return provenance(x.X, depth+1) + "." + st.Field(x.Field).Name()
	case *ssa.Alloc:
		return x.Comment
	case *ssa.Parameter:
		return x.Name()
	case *ssa.Const:
		return "const"
	case *ssa.Call:
		return "call:" + callName(x.Common())
	}
	return "?"
}

// fmtCalls finds fmt.Fprintf / fmt.Appendf / fmt.Sprintf calls with a constant format.
func fmtCalls(e *Engine, fn *ssa.Function) []fmtCall {
	var out []fmtCall
	for _, b := range fn.Blocks {
		for _, in := range b.Instrs {
			c, ok := in.(*ssa.Call)
			if !ok {
				continue
			}
			callee := c.Call.StaticCallee()
			if callee == nil {
				continue
			}
			fi := -1
			switch callee.String() {
			case "fmt.Fprintf", "fmt.Appendf":
				fi = 1
			case "fmt.Sprintf":
				fi = 0
			}
			if fi < 0 || fi >= len(c.Call.Args) {
				continue
			}
			k, ok := c.Call.Args[fi].(*ssa.Const)
			if !ok || k.Value == nil || k.Value.Kind() != constant.String {
				continue
			}
			fc := fmtCall{pos: posStr(e.fset, c.Pos()), format: constant.StringVal(k.Value), instr: c}
			// variadic args: a slice of a new array with stores
			if fi+1 < len(c.Call.Args) {
				if sl, ok := c.Call.Args[fi+1].(*ssa.Slice); ok {
					if al, ok := sl.X.(*ssa.Alloc); ok {
						idx := map[int]string{}
						for _, ref := range *al.Referrers() {
							if ia, ok := ref.(*ssa.IndexAddr); ok {
								if kc, ok := ia.Index.(*ssa.Const); ok {
									n, _ := constant.Int64Val(kc.Value)
									for _, r2 := range *ia.Referrers() {
										if st, ok := r2.(*ssa.Store); ok {
											idx[int(n)] = provenance(st.Val, 0)
										}
									}
								}
							}
						}
						for i := 0; i < len(idx); i++ {
							fc.args = append(fc.args, idx[i])
						}
					}
				}
			}
			out = append(out, fc)
		}
	}
	return out
}

type fmtPiece struct {
	lit  string
	verb byte // 0 for the trailing literal
}

func parseFormat(f string) []fmtPiece {
	var ps []fmtPiece
	var lit strings.Builder
	for i := 0; i < len(f); i++ {
		if f[i] == '%' && i+1 < len(f) {
			if f[i+1] == '%' {
				lit.WriteByte('%')
				i++
				continue
			}
			ps = append(ps, fmtPiece{lit.String(), f[i+1]})
			lit.Reset()
			i++
			continue
		}
		lit.WriteByte(f[i])
	}
	ps = append(ps, fmtPiece{lit.String(), 0})
	return ps
}

func inAlphabet(verb, c byte) bool {
	switch verb {
	case 'x':
		return (c >= '0' && c <= '9') || (c >= 'a' && c <= 'f')
	case 'd':
		return c >= '0' && c <= '9'
	case 's':
		return c != '\n' // free text (rendered without newlines) is delimited by the line terminator
	}
	return true
}

// labelOf returns the identifier immediately preceding the verb in the literal ("  PubKeyHash: " -> PubKeyHash).
func labelOf(lit string) string {
	s := strings.TrimRight(lit, " :=.")
	j := len(s)
	for j > 0 && (s[j-1] == '_' || (s[j-1] >= 'a' && s[j-1] <= 'z') || (s[j-1] >= 'A' && s[j-1] <= 'Z') || (s[j-1] >= '0' && s[j-1] <= '9')) {
		j--
	}
	return s[j:]
}

func (e *Engine) c15Obligations(prop string) []*Obl {
	props := []string{prop}
	var out []*Obl
	pkg := e.modPath + "/tm/tmconsensus/tmconsensustest"
	block := e.findFunc(pkg + ".SimpleHashScheme.Block")
	if block == nil {
		return []*Obl{structObl("tmconsensustest.SimpleHashScheme.Block/exists", props, "", false, "function under contract exists", "SimpleHashScheme.Block not found")}
	}
	pos := posStr(e.fset, block.Pos())
	structVC = &VC{eng: e, g: e.g, fnName: fnKey(block), fn: block, heapSorts: map[string]string{}}
	calls := fmtCalls(e, block)
	// (1) side conditions and label/argument agreement per Fprintf
	var allArgs []string
	seenArg := map[string]bool{}
	for ci, fc := range calls {
		pieces := parseFormat(fc.format)
		nverbs := len(pieces) - 1
		if fc.instr.Call.StaticCallee().String() != "fmt.Fprintf" {
			// helper renderings (map keys, "keyid:sig" entries): every verb but the last must be delimited;
			// the results are joined with ", " / " => (" which lie outside the hex alphabet
			for vi := 0; vi < nverbs-1; vi++ {
				next := pieces[vi+1].lit
				ok := len(next) > 0 && !inAlphabet(pieces[vi].verb, next[0])
				out = append(out, structObl(fmt.Sprintf("tmconsensustest.SimpleHashScheme.Block/helper-format#%d.verb%d-delimited", ci+1, vi+1), props, fc.pos, ok,
					"verb is followed by a literal starting outside the verb's alphabet (unique parse)", fmt.Sprintf("verb %%%c followed by %q", pieces[vi].verb, next)))
			}
			continue
		}
		out = append(out, structObl(fmt.Sprintf("tmconsensustest.SimpleHashScheme.Block/format#%d.arity", ci+1), props, fc.pos, nverbs == len(fc.args),
			"number of verbs equals number of arguments", fmt.Sprintf("%d verbs, %d args", nverbs, len(fc.args))))
		for vi := 0; vi < nverbs && vi < len(fc.args); vi++ {
			next := pieces[vi+1].lit
			ok := len(next) > 0 && !inAlphabet(pieces[vi].verb, next[0])
			out = append(out, structObl(fmt.Sprintf("tmconsensustest.SimpleHashScheme.Block/format#%d.verb%d-delimited", ci+1, vi+1), props, fc.pos, ok,
				"verb is followed by a literal starting outside the verb's alphabet (unique parse)", fmt.Sprintf("verb %%%c followed by %q", pieces[vi].verb, next)))
			label := labelOf(pieces[vi].lit)
			arg := fc.args[vi]
			// the argument must be the header field its label names (or the local holding the rendered signatures)
			okLabel := false
			switch {
			case label == "Signatures":
				okLabel = arg == "prevCommitSignatures"
			case label == "UserAnnotation":
				okLabel = arg == "h.Annotations.User"
			case label == "DriverAnnotation":
				okLabel = arg == "h.Annotations.Driver"
			case label == "":
				// second verb of "X: %x.%x": same parent as previous argument
				if vi > 0 {
					prev := fc.args[vi-1]
					okLabel = strings.HasPrefix(arg, "h.") && parentPath(arg) == parentPath(prev)
				}
			default:
				okLabel = strings.HasPrefix(arg, "h.") && (strings.HasSuffix(arg, "."+label) || strings.Contains(arg, "."+label+"."))
			}
			out = append(out, structObl(fmt.Sprintf("tmconsensustest.SimpleHashScheme.Block/format#%d.verb%d-is-%s", ci+1, vi+1, sanitizeLabel(label, vi)), props, fc.pos, okLabel,
				"the argument of the verb is the header field named by its label", fmt.Sprintf("label %q is fed from %s", label, arg)))
			out = append(out, structObl(fmt.Sprintf("tmconsensustest.SimpleHashScheme.Block/format#%d.verb%d-distinct", ci+1, vi+1), props, fc.pos, !seenArg[arg],
				"no header field is hashed at two positions (each position binds its own field)", "argument "+arg+" used twice"))
			seenArg[arg] = true
			allArgs = append(allArgs, arg)
		}
	}
	// (2) coverage: every consensus field of Header except Hash is an input of the hash
	reads := fieldReads(block, "h")
	ht := e.pkgByPath[e.modPath+"/tm/tmconsensus"].Scope().Lookup("Header").Type()
	var required []string
	var walk func(t types.Type, path string)
	walk = func(t types.Type, path string) {
		st, ok := t.Underlying().(*types.Struct)
		if !ok {
			required = append(required, path)
			return
		}
		for i := 0; i < st.NumFields(); i++ {
			f := st.Field(i)
			p := path + "." + f.Name()
			if p == "h.Hash" {
				continue
			}
			// validator sets enter through their two hashes (list-vs-hash agreement is C07)
			if strings.HasSuffix(p, "ValidatorSet.Validators") || strings.HasSuffix(p, "ValidatorSet.PubKeys") {
				continue
			}
			walk(f.Type(), p)
		}
	}
	walk(ht, "h")
	sort.Strings(required)
	for _, r := range required {
		fed := reads[r]
		// scalar header fields must be direct Fprintf arguments; the commit-proof map feeds the rendered signatures
		if r != "h.PrevCommitProof.Proofs" {
			fed = false
			for _, a := range allArgs {
				if a == r {
					fed = true
				}
			}
		}
		out = append(out, structObl("tmconsensustest.SimpleHashScheme.Block/covers "+r, props, pos, fed,
			"header field is an input of the block hash", r+" does not reach the hasher"))
	}
	out = append(out, structObl("tmconsensustest.SimpleHashScheme.Block/ignores-stored-hash", props, pos, !reads["h.Hash"],
		"the stored Hash field is not an input of the block hash", "h.Hash is read"))
	// (3) commit-proof signatures: the per-block signature list must be looked up with the map's own key.
	out = append(out, e.c15ProofLookup(block, props)...)
	out = append(out, e.c15RenderedSignatures(block, props)...)

	// (4) sign bytes: kind prefixes pairwise prefix-free; arguments as labelled; nil separated from non-nil
	var prefixes []string
	var prefixPos []string
	for _, name := range []string{"WriteProposalSigningContent", "WritePrevoteSigningContent", "WritePrecommitSigningContent"} {
		fn := e.findFunc(pkg + ".SimpleSignatureScheme." + name)
		if fn == nil {
			out = append(out, structObl("tmconsensustest.SimpleSignatureScheme."+name+"/exists", props, "", false, "function exists", name+" not found"))
			continue
		}
		for ci, fc := range fmtCalls(e, fn) {
			pieces := parseFormat(fc.format)
			if !strings.HasPrefix(pieces[0].lit, "UserAnnotation") && !strings.HasPrefix(pieces[0].lit, "DriverAnnotation") {
				first := pieces[0].lit
				if i := strings.Index(first, "\n"); i >= 0 {
					first = first[:i+1]
				}
				prefixes = append(prefixes, first)
				prefixPos = append(prefixPos, fc.pos)
			}
			for vi := 0; vi < len(pieces)-1 && vi < len(fc.args); vi++ {
				next := pieces[vi+1].lit
				ok := len(next) > 0 && !inAlphabet(pieces[vi].verb, next[0])
				out = append(out, structObl(fmt.Sprintf("tmconsensustest.SimpleSignatureScheme.%s/format#%d.verb%d-delimited", name, ci+1, vi+1), props, fc.pos, ok,
					"verb is followed by a literal starting outside the verb's alphabet (unique parse)", fmt.Sprintf("verb %%%c followed by %q", pieces[vi].verb, next)))
				label := labelOf(pieces[vi].lit)
				arg := fc.args[vi]
				okLabel := strings.HasSuffix(strings.ToLower(arg), strings.ToLower(label)) || strings.HasSuffix(arg, "."+label) ||
					(label == "UserAnnotation" && strings.HasSuffix(arg, ".User")) || (label == "DriverAnnotation" && strings.HasSuffix(arg, ".Driver"))
				out = append(out, structObl(fmt.Sprintf("tmconsensustest.SimpleSignatureScheme.%s/format#%d.verb%d-is-%s", name, ci+1, vi+1, label), props, fc.pos, okLabel,
					"the argument of the verb is the value named by its label", fmt.Sprintf("label %q is fed from %s", label, arg)))
			}
		}
	}
	for i := range prefixes {
		for j := range prefixes {
			if i < j {
				ok := !strings.HasPrefix(prefixes[i], prefixes[j]) && !strings.HasPrefix(prefixes[j], prefixes[i])
				out = append(out, structObl(fmt.Sprintf("tmconsensustest.SimpleSignatureScheme/kind-prefix-free %d-%d", i+1, j+1), props, prefixPos[i], ok,
					"the leading kind lines of two sign-byte formats are not prefixes of each other (domain separation)", fmt.Sprintf("%q vs %q", prefixes[i], prefixes[j])))
			}
		}
	}
	out = append(out, structObl("tmconsensustest.SimpleSignatureScheme/five-kinds", props, "", len(prefixes) == 5,
		"five sign-byte kinds (proposal, prevote, nil prevote, precommit, nil precommit)", fmt.Sprintf("found %d", len(prefixes))))
	return out
}

func sanitizeLabel(l string, i int) string {
	if l == "" {
		return fmt.Sprintf("second%d", i)
	}
	return l
}

func parentPath(p string) string {
	if i := strings.LastIndex(p, "."); i >= 0 {
		return p[:i]
	}
	return p
}

// fieldReads collects the field paths of parameter `param` that the function loads.
func fieldReads(fn *ssa.Function, param string) map[string]bool {
	out := map[string]bool{}
	for _, b := range fn.Blocks {
		for _, in := range b.Instrs {
			switch x := in.(type) {
			case *ssa.UnOp:
				if x.Op == token.MUL {
					if p := provenance(x.X, 0); strings.HasPrefix(p, param+".") {
						out[p] = true
					}
				}
			case *ssa.Field:
				if p := provenance(x, 0); strings.HasPrefix(p, param+".") {
					out[p] = true
				}
			}
		}
	}
	return out
}

// c15ProofLookup: in Block, every Lookup into h.PrevCommitProof.Proofs must use a key that is an element of the map's own
// key set (the range variable), not a re-formatted string.
func (e *Engine) c15ProofLookup(fn *ssa.Function, props []string) []*Obl {
	var out []*Obl
	n := 0
	for _, b := range fn.Blocks {
		for _, in := range b.Instrs {
			lk, ok := in.(*ssa.Lookup)
			if !ok {
				continue
			}
			if provenance(lk.X, 0) != "h.PrevCommitProof.Proofs" {
				continue
			}
			n++
			// the key must come (through locals) from the Next of a range over the same map, without formatting in between
			okKey := keyFromRangeOf(lk.Index, "h.PrevCommitProof.Proofs", 0)
			out = append(out, structObl(fmt.Sprintf("tmconsensustest.SimpleHashScheme.Block/proof-lookup#%d-uses-map-key", n), props, posStr(e.fset, lk.Pos()), okKey,
				"the signatures of a block are looked up with the commit-proof map's own key", "the lookup key is not a key of the ranged map (it is a formatted string), so no signature reaches the hash"))
		}
	}
	if n == 0 {
		out = append(out, structObl("tmconsensustest.SimpleHashScheme.Block/proof-lookup-present", props, posStr(e.fset, fn.Pos()), false,
			"the commit-proof signatures are read", "no lookup into h.PrevCommitProof.Proofs"))
	}
	return out
}

// keyFromRangeOf reports whether v is (a local copy of) the key produced by ranging over the map with the given provenance.
func keyFromRangeOf(v ssa.Value, mapProv string, depth int) bool {
	if depth > 10 {
		return false
	}
	switch x := v.(type) {
	case *ssa.Extract:
		if nx, ok := x.Tuple.(*ssa.Next); ok && x.Index == 1 {
			if rg, ok := nx.Iter.(*ssa.Range); ok {
				return provenance(rg.X, 0) == mapProv
			}
		}
	case *ssa.UnOp:
		if x.Op == token.MUL {
			// load of a local: find its stores
			if al, ok := x.X.(*ssa.Alloc); ok {
				okAll, any := true, false
				for _, ref := range *al.Referrers() {
					if st, ok := ref.(*ssa.Store); ok && st.Addr == ssa.Value(al) {
						any = true
						if !keyFromRangeOf(st.Val, mapProv, depth+1) {
							okAll = false
						}
					}
				}
				return any && okAll
			}
		}
	case *ssa.Lookup:
		// key obtained from an auxiliary map whose values are the original keys
		return valuesAreRangeKeys(x.X, mapProv, depth+1)
	case *ssa.ChangeType:
		return keyFromRangeOf(x.X, mapProv, depth+1)
	}
	return false
}

// valuesAreRangeKeys: every MapUpdate into the map stores a value that is a key of the ranged map.
func valuesAreRangeKeys(m ssa.Value, mapProv string, depth int) bool {
	ld, ok := m.(*ssa.UnOp)
	if !ok {
		return false
	}
	al, ok := ld.X.(*ssa.Alloc)
	if !ok {
		return false
	}
	any := false
	for _, b := range al.Parent().Blocks {
		for _, in := range b.Instrs {
			mu, ok := in.(*ssa.MapUpdate)
			if !ok {
				continue
			}
			if l2, ok := mu.Map.(*ssa.UnOp); ok && l2.X == ssa.Value(al) {
				any = true
				if !keyFromRangeOf(mu.Value, mapProv, depth+1) {
					return false
				}
			}
		}
	}
	return any
}

// ---- C14: side conditions of the trusted encoding/json contract ----
//
// The C14 contracts treat json.Marshal followed by json.Unmarshal as the identity on the intermediate wire structs
// (DESIGN.md section 3, T3). That is a property of encoding/json only for structs whose fields are all exported, carry
// distinct JSON names, and have no tag option that drops or rewrites a value (`-`, omitempty, omitzero, string).
// These obligations check exactly that for every struct type that reaches json.Marshal / json.Unmarshal in the codec
// package, so the assumption is not silently invalidated by a tag. omitempty is admitted on json.RawMessage fields only
// (an empty RawMessage is not valid JSON and cannot be marshalled, so omitting it loses nothing).
func (e *Engine) c14Obligations(prop string) []*Obl {
	props := []string{prop}
	var out []*Obl
	pkgPath := e.modPath + "/tm/tmcodec/tmjson"
	sp := e.ssaPkgs[pkgPath]
	if sp == nil {
		return []*Obl{structObl("tmjson/json-wire-structs/exists", props, "", false, "codec package is loaded", pkgPath+" not loaded")}
	}
	// roots: operand types of json.Marshal(v) and json.Unmarshal(b, &v) in the package's functions and methods
	seen := map[string]bool{}
	var order []*types.Named
	var visit func(t types.Type)
	visit = func(t types.Type) {
		switch x := t.(type) {
		case *types.Pointer:
			visit(x.Elem())
		case *types.Slice:
			visit(x.Elem())
		case *types.Array:
			visit(x.Elem())
		case *types.Map:
			visit(x.Elem())
		case *types.Named:
			st, ok := x.Underlying().(*types.Struct)
			if !ok {
				if _, isBasic := x.Underlying().(*types.Basic); !isBasic {
					visit(x.Underlying())
				}
				return
			}
			key := x.String()
			if seen[key] {
				return
			}
			seen[key] = true
			order = append(order, x)
			for i := 0; i < st.NumFields(); i++ {
				visit(st.Field(i).Type())
			}
		}
	}
	nRoots := 0
	var fns []*ssa.Function
	for _, m := range sp.Members {
		switch x := m.(type) {
		case *ssa.Function:
			fns = append(fns, x)
		case *ssa.Type:
			for _, recv := range []types.Type{x.Type(), types.NewPointer(x.Type())} {
				ms := e.prog.MethodSets.MethodSet(recv)
				for i := 0; i < ms.Len(); i++ {
					if f := e.prog.MethodValue(ms.At(i)); f != nil && f.Pkg == sp {
						fns = append(fns, f)
					}
				}
			}
		}
	}
	for _, fn := range fns {
		for _, b := range fn.Blocks {
			for _, in := range b.Instrs {
				c, ok := in.(*ssa.Call)
				if !ok {
					continue
				}
				callee := c.Call.StaticCallee()
				if callee == nil {
					continue
				}
				ai := -1
				switch callee.String() {
				case "encoding/json.Marshal":
					ai = 0
				case "encoding/json.Unmarshal":
					ai = 1
				}
				if ai < 0 {
					continue
				}
				if mi, ok := c.Call.Args[ai].(*ssa.MakeInterface); ok {
					nRoots++
					visit(mi.X.Type())
				}
			}
		}
	}
	out = append(out, structObl("tmjson/json-wire-structs/found", props, "", nRoots > 0 && len(order) > 0,
		"the codec passes struct values to encoding/json", fmt.Sprintf("%d json.Marshal/Unmarshal operands, %d struct types", nRoots, len(order))))
	sort.Slice(order, func(i, j int) bool { return order[i].String() < order[j].String() })
	rawMsg := "encoding/json.RawMessage"
	for _, nt := range order {
		st := nt.Underlying().(*types.Struct)
		short := nt.Obj().Pkg().Name() + "." + nt.Obj().Name()
		pos := posStr(e.fset, nt.Obj().Pos())
		// a type with its own MarshalJSON/UnmarshalJSON is outside the identity assumption: say so
		custom := false
		for _, recv := range []types.Type{nt, types.NewPointer(nt)} {
			ms := types.NewMethodSet(recv)
			for i := 0; i < ms.Len(); i++ {
				if n := ms.At(i).Obj().Name(); n == "MarshalJSON" || n == "UnmarshalJSON" || n == "MarshalText" || n == "UnmarshalText" {
					custom = true
				}
			}
		}
		out = append(out, structObl("tmjson/json-wire-struct "+short+"/default-encoding", props, pos, !custom,
			"the wire struct uses encoding/json's default struct encoding (no custom marshaller)", short+" defines its own JSON/text marshalling"))
		names := map[string]string{}
		for i := 0; i < st.NumFields(); i++ {
			f := st.Field(i)
			tag := reflectTagGet(st.Tag(i), "json")
			name, opts := tag, ""
			if j := strings.Index(tag, ","); j >= 0 {
				name, opts = tag[:j], tag[j+1:]
			}
			fname := short + "." + f.Name()
			okExp := f.Exported() && !f.Embedded()
			out = append(out, structObl("tmjson/json-wire-struct "+fname+"/exported", props, pos, okExp,
				"the field is exported and named (unexported or embedded fields are not carried as written)", fname+" is unexported or embedded"))
			okTag := name != "-" || opts != ""
			detail := ""
			for _, o := range strings.Split(opts, ",") {
				switch o {
				case "":
				case "omitempty", "omitzero":
					if f.Type().String() != rawMsg {
						okTag = false
						detail = "option " + o + " drops empty values: an empty non-nil value decodes as nil/absent"
					}
				default:
					okTag = false
					detail = "option " + o + " rewrites the value"
				}
			}
			if name == "-" && opts == "" {
				detail = "tag \"-\" drops the field"
			}
			out = append(out, structObl("tmjson/json-wire-struct "+fname+"/tag-keeps-the-value", props, pos, okTag,
				"no JSON tag option drops or rewrites the field's value (nil/empty/zero values survive the round trip)", fname+": "+detail))
			jn := name
			if jn == "" {
				jn = f.Name()
			}
			lower := strings.ToLower(jn)
			prev, dup := names[lower]
			out = append(out, structObl("tmjson/json-wire-struct "+fname+"/distinct-json-name", props, pos, !dup,
				"JSON names are distinct within the struct (case-insensitively, as the decoder matches them)", fname+" and "+prev+" share the JSON name "+jn))
			names[lower] = fname
		}
	}
	return out
}

// reflectTagGet is reflect.StructTag.Get without importing reflect's conventions differently: conventional key:"value" pairs.
func reflectTagGet(tag, key string) string {
	for tag != "" {
		i := 0
		for i < len(tag) && tag[i] == ' ' {
			i++
		}
		tag = tag[i:]
		if tag == "" {
			break
		}
		i = 0
		for i < len(tag) && tag[i] > ' ' && tag[i] != ':' && tag[i] != '"' && tag[i] != 0x7f {
			i++
		}
		if i == 0 || i+1 >= len(tag) || tag[i] != ':' || tag[i+1] != '"' {
			break
		}
		name := tag[:i]
		tag = tag[i+1:]
		i = 1
		for i < len(tag) && tag[i] != '"' {
			if tag[i] == '\\' {
				i++
			}
			i++
		}
		if i >= len(tag) {
			break
		}
		qvalue := tag[:i+1]
		tag = tag[i+1:]
		if key == name {
			v := qvalue[1 : len(qvalue)-1]
			return strings.ReplaceAll(v, `\"`, `"`)
		}
	}
	return ""
}

// c15RenderedSignatures: every signature of a vote target reaches the hasher. The rendered "keyid:sig" strings of one
// target are collected in a slice, sorted, and written; this holds only if that slice (1) is made anew for each target
// with exactly len(sigs) elements, unconditionally before it is filled, sorted and written (a slice shared between
// targets, or made under a condition, lets stale entries of another target displace this target's signatures once the
// whole slice is sorted), (2) is the slice that is sorted, and (3) is the slice whose elements are written.
func (e *Engine) c15RenderedSignatures(fn *ssa.Function, props []string) []*Obl {
	var out []*Obl
	pos := posStr(e.fset, fn.Pos())
	name := "tmconsensustest.SimpleHashScheme.Block/rendered-signatures"
	allocOfLoad := func(v ssa.Value) *ssa.Alloc {
		for d := 0; d < 6; d++ {
			switch x := v.(type) {
			case *ssa.UnOp:
				if x.Op != token.MUL {
					return nil
				}
				if al, ok := x.X.(*ssa.Alloc); ok {
					return al
				}
				return nil
			case *ssa.ChangeType:
				v = x.X
			case *ssa.Convert:
				v = x.X
			default:
				return nil
			}
		}
		return nil
	}
	// the slice that receives the rendered "%x:%x" strings of KeyID and Sig
	var S *ssa.Alloc
	var fillBlock *ssa.BasicBlock
	for _, fc := range fmtCalls(e, fn) {
		if len(fc.args) != 2 || !strings.HasSuffix(fc.args[0], ".KeyID") || !strings.HasSuffix(fc.args[1], ".Sig") {
			continue
		}
		for _, ref := range *fc.instr.Referrers() {
			st, ok := ref.(*ssa.Store)
			if !ok {
				continue
			}
			if ia, ok := st.Addr.(*ssa.IndexAddr); ok {
				S = allocOfLoad(ia.X)
				fillBlock = st.Block()
			}
		}
	}
	out = append(out, structObl(name+"/collected", props, pos, S != nil,
		"the rendered key-id:signature strings are stored into a local slice", "no store of the rendered signature into a slice element found"))
	if S == nil {
		return out
	}
	// (1) one unconditional make([]string, len(sigs)) per target
	var stores []*ssa.Store
	for _, ref := range *S.Referrers() {
		if st, ok := ref.(*ssa.Store); ok && st.Addr == ssa.Value(S) {
			stores = append(stores, st)
		}
	}
	okMake, detail := false, fmt.Sprintf("%d assignments to %s", len(stores), S.Comment)
	var makeBlock *ssa.BasicBlock
	var sigsAlloc *ssa.Alloc
	if len(stores) == 1 {
		if mk, ok := stores[0].Val.(*ssa.MakeSlice); ok {
			lenOf := func(v ssa.Value) *ssa.Alloc {
				if c, ok := v.(*ssa.Call); ok {
					if b, ok := c.Call.Value.(*ssa.Builtin); ok && b.Name() == "len" && len(c.Call.Args) == 1 {
						return allocOfLoad(c.Call.Args[0])
					}
				}
				return nil
			}
			la, ca := lenOf(mk.Len), lenOf(mk.Cap)
			if la != nil && la == ca {
				sigsAlloc = la
				makeBlock = stores[0].Block()
				okMake = true
			} else {
				detail = "the slice is not made with len(signatures of the target) elements"
			}
		} else {
			detail = "the only assignment is not a make"
		}
	}
	out = append(out, structObl(name+"/made-per-target-with-one-slot-per-signature", props, pos, okMake,
		"the slice of rendered signatures has exactly one assignment: make([]string, len(sigs))", detail))
	if !okMake {
		return out
	}
	// sigs is the lookup of this target in the commit proof, in the same iteration, before the make
	okSigs := false
	for _, ref := range *sigsAlloc.Referrers() {
		if st, ok := ref.(*ssa.Store); ok && st.Addr == ssa.Value(sigsAlloc) {
			v := st.Val
			if ex, ok := v.(*ssa.Extract); ok {
				v = ex.Tuple
			}
			if lk, ok := v.(*ssa.Lookup); ok && provenance(lk.X, 0) == "h.PrevCommitProof.Proofs" && st.Block().Dominates(makeBlock) {
				okSigs = true
			}
		}
	}
	out = append(out, structObl(name+"/sized-by-this-targets-signatures", props, pos, okSigs,
		"the length is that of the signature list looked up for this target just before", "len() is not taken of the commit-proof entry of the current target"))
	out = append(out, structObl(name+"/made-before-filled", props, pos, fillBlock != nil && makeBlock.Dominates(fillBlock) && makeBlock != fillBlock,
		"every path that fills the slice first makes it (no slice kept from an earlier target)", "the make does not dominate the loop that fills the slice"))
	// (2) the sorted slice and (3) the written elements
	nSort, okSort := 0, true
	nWrite, okWrite := 0, true
	for _, b := range fn.Blocks {
		for _, in := range b.Instrs {
			c, ok := in.(*ssa.Call)
			if !ok {
				continue
			}
			callee := c.Call.StaticCallee()
			if callee == nil {
				continue
			}
			switch callee.String() {
			case "sort.Strings":
				if al := allocOfLoad(c.Call.Args[0]); al == S {
					nSort++
					if !makeBlock.Dominates(b) {
						okSort = false
					}
				} else if _, isSlice := c.Call.Args[0].(*ssa.Slice); isSlice {
					if sl := c.Call.Args[0].(*ssa.Slice); allocOfLoad(sl.X) == S {
						nSort++
						okSort = false // a part of the slice is sorted: not covered by this argument
					}
				}
			case "(*bytes.Buffer).WriteString":
				// WriteString(s) with s loaded from a local that is assigned an element of S
				if len(c.Call.Args) == 2 {
					if al := allocOfLoad(c.Call.Args[1]); al != nil {
						for _, ref := range *al.Referrers() {
							if st, ok := ref.(*ssa.Store); ok && st.Addr == ssa.Value(al) {
								if ld, ok := st.Val.(*ssa.UnOp); ok && ld.Op == token.MUL {
									if ia, ok := ld.X.(*ssa.IndexAddr); ok && allocOfLoad(ia.X) == S {
										nWrite++
										if !makeBlock.Dominates(b) {
											okWrite = false
										}
									}
								}
							}
						}
					} else if ld, ok := c.Call.Args[1].(*ssa.UnOp); ok && ld.Op == token.MUL {
						if ia, ok := ld.X.(*ssa.IndexAddr); ok && allocOfLoad(ia.X) == S {
							nWrite++
							okWrite = false // indexed by something other than a range over the slice itself: not covered
						}
					}
				}
			}
		}
	}
	out = append(out, structObl(name+"/sorted-whole-and-only-after-made", props, pos, nSort == 1 && okSort,
		"the slice made for this target is sorted whole, once", fmt.Sprintf("%d sort.Strings calls on the slice (or a partial / unguarded sort)", nSort)))
	out = append(out, structObl(name+"/written-by-ranging-over-it", props, pos, nWrite == 1 && okWrite,
		"the elements written to the hash input are obtained by ranging over that same slice", fmt.Sprintf("%d writes of its elements (or indexed otherwise than by its own range)", nWrite)))
	return out
}
