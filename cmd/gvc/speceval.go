package main

import (
	"fmt"
	"go/constant"
	"go/types"
	"regexp"
	"strconv"
	"strings"

	"golang.org/x/tools/go/ssa"
)

// SpecEnv evaluates spec expressions against a symbolic state.
type SpecEnv struct {
	a     *Act
	vc    *VC
	eng   *Engine
	st    *State
	old   *State
	vars  map[string]Val
	pkg   *types.Package
	loop  *ssa.BasicBlock
	pre   *State // loop-head state of the current iteration (hints)
	other *State // axioms: second heap state
	depth int
}

func (a *Act) specEnv(st *State) *SpecEnv {
	env := &SpecEnv{a: a, vc: a.vc, eng: a.eng, st: st, old: a.entry, vars: map[string]Val{}}
	if a.fn != nil && a.fn.Pkg != nil {
		env.pkg = a.fn.Pkg.Pkg
	} else if a.fn != nil && a.fn.Object() != nil {
		env.pkg = a.fn.Object().Pkg()
	}
	for k, v := range a.params {
		env.vars[k] = v
	}
	return env
}

func (env *SpecEnv) with(st *State) *SpecEnv {
	n := *env
	n.st = st
	return &n
}

func (env *SpecEnv) bind(name string, v Val) *SpecEnv {
	n := *env
	n.vars = make(map[string]Val, len(env.vars)+1)
	for k, x := range env.vars {
		n.vars[k] = x
	}
	n.vars[name] = v
	return &n
}

type specErr struct{ msg string }

func (e specErr) Error() string { return e.msg }

func (env *SpecEnv) fail(f string, a ...any) { panic(specErr{fmt.Sprintf(f, a...)}) }

func (env *SpecEnv) evalBool(e SExpr) (s string, err error) {
	defer func() {
		if r := recover(); r != nil {
			if se, ok := r.(specErr); ok {
				err = se
				return
			}
			panic(r)
		}
	}()
	v := env.eval(e)
	if v.Sort != sBool {
		return "", fmt.Errorf("expression is not boolean (sort %s)", v.Sort)
	}
	return v.S, nil
}

func (env *SpecEnv) evalVal(e SExpr) (v Val, err error) {
	defer func() {
		if r := recover(); r != nil {
			if se, ok := r.(specErr); ok {
				err = se
				return
			}
			panic(r)
		}
	}()
	v = env.force(env.eval(e))
	return v, nil
}

// force materializes a struct value located at an address.
func (env *SpecEnv) force(v Val) Val {
	if v.S == "" && v.Addr != "" {
		r := env.a.loadAt(env.st, v.Addr, v.T)
		return r
	}
	if v.S == "" && v.P != nil && v.P.Kind == ptrLocal {
		env.fail("pointer to local variable used as value in spec")
	}
	return v
}

func (env *SpecEnv) eval(e SExpr) Val {
	g := env.vc.g
	switch x := e.(type) {
	case SInt:
		return Val{S: x.V, Sort: sInt}
	case SStr:
		return Val{S: g.strLit(x.V), Sort: sStr, T: types.Typ[types.String]}
	case SBool:
		if x.V {
			return Val{S: "true", Sort: sBool}
		}
		return Val{S: "false", Sort: sBool}
	case SNil:
		return Val{S: "0", Sort: "nil"}
	case SIdent:
		return env.ident(x.Name)
	case SOld:
		if env.old == nil {
			env.fail("old() not available here")
		}
		n := env.with(env.old)
		// parameters inside old() are entry values already
		return n.force(n.eval(x.X))
	case SOther:
		if env.other == nil {
			env.fail("other() is only available in axioms and lemmas")
		}
		n := env.with(env.other)
		return n.force(n.eval(x.X))
	case SPre:
		if env.pre == nil {
			env.fail("pre() is only available in loop hints")
		}
		n := env.with(env.pre)
		return n.force(n.eval(x.X))
	case SUn:
		v := env.force(env.eval(x.X))
		switch x.Op {
		case "!":
			env.want(v, sBool, "!")
			return Val{S: not(v.S), Sort: sBool}
		case "-":
			return Val{S: "(- " + v.S + ")", Sort: sInt}
		}
	case SDeref:
		v := env.eval(x.X)
		if v.T == nil {
			env.fail("deref of untyped value")
		}
		v = env.force(v)
		dt := deref(v.T)
		if g.structInfoOf(dt) == nil {
			r := env.a.loadAt(env.st, v.S, dt)
			env.typedFact(r)
			return r
		}
		return Val{Addr: v.S, T: dt, Sort: g.sortOf(dt)}
	case SBin:
		return env.bin(x)
	case SIte:
		c := env.force(env.eval(x.C))
		a := env.force(env.eval(x.A))
		b := env.force(env.eval(x.B))
		a, b = env.unifyNil(a, b)
		return Val{S: ite(c.S, a.S, b.S), Sort: a.Sort, T: a.T}
	case SSel:
		return env.sel(x)
	case SIndex:
		return env.index(x)
	case SCall:
		return env.call(x)
	case SQuant:
		return env.quant(x)
	case SSlice:
		env.fail("slice expressions not supported in specs")
	}
	env.fail("unsupported spec expression %T", e)
	return Val{}
}

func (env *SpecEnv) want(v Val, sort, ctx string) {
	if v.Sort != sort {
		env.fail("operand of %s has sort %s, want %s", ctx, v.Sort, sort)
	}
}

func (env *SpecEnv) unifyNil(a, b Val) (Val, Val) {
	fix := func(n Val, o Val) Val {
		switch o.Sort {
		case sSlice:
			return Val{S: "(mk_Slice 0 0 0 0)", Sort: sSlice, T: o.T}
		case sIface:
			return Val{S: "(mk_Iface 0 0)", Sort: sIface, T: o.T}
		case sInt:
			return Val{S: "0", Sort: sInt, T: o.T}
		}
		env.fail("nil compared with value of sort %s", o.Sort)
		return n
	}
	if a.Sort == "nil" && b.Sort != "nil" {
		a = fix(a, b)
	} else if b.Sort == "nil" && a.Sort != "nil" {
		b = fix(b, a)
	} else if a.Sort == "nil" && b.Sort == "nil" {
		a.Sort, b.Sort = sInt, sInt
	}
	return a, b
}

func (env *SpecEnv) bin(x SBin) Val {
	switch x.Op {
	case "&&", "||", "==>", "<==>":
		l := env.force(env.eval(x.L))
		r := env.force(env.eval(x.R))
		env.want(l, sBool, x.Op)
		env.want(r, sBool, x.Op)
		switch x.Op {
		case "&&":
			return Val{S: and(l.S, r.S), Sort: sBool}
		case "||":
			return Val{S: or(l.S, r.S), Sort: sBool}
		case "==>":
			return Val{S: implies(l.S, r.S), Sort: sBool}
		default:
			return Val{S: eq(l.S, r.S), Sort: sBool}
		}
	case "in":
		k := env.force(env.eval(x.L))
		m := env.force(env.eval(x.R))
		if m.T != nil {
			if mt, ok := m.T.Underlying().(*types.Map); ok {
				dk, ds, _, _, _, _ := env.a.mapHeaps(env.st, mt)
				k = env.a.convKey(env.st, k, mt.Key())
				return Val{S: and(not(eq(m.S, "0")), sel(sel(env.vc.getHeap(env.st, dk, ds), m.S), k.S)), Sort: sBool}
			}
		}
		if strings.HasPrefix(m.Sort, "(Array ") && strings.HasSuffix(m.Sort, " Bool)") {
			return Val{S: sel(m.S, k.S), Sort: sBool}
		}
		env.fail("'in' needs a map or set on the right (got %s)", m.Sort)
	case "==", "!=":
		l := env.force(env.eval(x.L))
		r := env.force(env.eval(x.R))
		l, r = env.unifyNil(l, r)
		var s string
		if l.Sort == sSlice && (isNilLit(x.L) || isNilLit(x.R)) {
			// s == nil  <=> array pointer is 0
			o := l
			if isNilLit(x.L) {
				o = r
			}
			s = eq("(sl_arr "+o.S+")", "0")
		} else if l.Sort == sIface && (isNilLit(x.L) || isNilLit(x.R)) {
			o := l
			if isNilLit(x.L) {
				o = r
			}
			s = eq("(itag "+o.S+")", "0")
		} else {
			if l.Sort != r.Sort {
				env.fail("comparison of different sorts %s and %s", l.Sort, r.Sort)
			}
			s = eq(l.S, r.S)
		}
		if x.Op == "!=" {
			s = not(s)
		}
		return Val{S: s, Sort: sBool}
	case "<", "<=", ">", ">=":
		l := env.force(env.eval(x.L))
		r := env.force(env.eval(x.R))
		if l.Sort == sStr && r.Sort == sStr {
			switch x.Op {
			case "<":
				return Val{S: app("strlt", l.S, r.S), Sort: sBool}
			case ">":
				return Val{S: app("strlt", r.S, l.S), Sort: sBool}
			case "<=":
				return Val{S: not(app("strlt", r.S, l.S)), Sort: sBool}
			default:
				return Val{S: not(app("strlt", l.S, r.S)), Sort: sBool}
			}
		}
		env.want(l, sInt, x.Op)
		env.want(r, sInt, x.Op)
		return Val{S: "(" + x.Op + " " + l.S + " " + r.S + ")", Sort: sBool}
	case "+", "-", "*", "/", "%":
		l := env.force(env.eval(x.L))
		r := env.force(env.eval(x.R))
		if x.Op == "+" && l.Sort == sStr {
			return Val{S: app("strcat", l.S, r.S), Sort: sStr}
		}
		env.want(l, sInt, x.Op)
		env.want(r, sInt, x.Op)
		op := x.Op
		if op == "/" {
			op = "div"
		}
		if op == "%" {
			op = "mod"
		}
		return Val{S: "(" + op + " " + l.S + " " + r.S + ")", Sort: sInt}
	}
	env.fail("unknown operator %s", x.Op)
	return Val{}
}

func isNilLit(e SExpr) bool { _, ok := e.(SNil); return ok }

func (env *SpecEnv) ident(name string) Val {
	if v, ok := env.vars[name]; ok {
		return v
	}
	// local variable of the function by source name
	if env.a != nil && env.a.fn != nil {
		if v, ok := env.localVar(name); ok {
			return v
		}
	}
	switch name {
	case "MAXU64":
		return Val{S: "18446744073709551615", Sort: sInt}
	case "MAXU32":
		return Val{S: "4294967295", Sort: sInt}
	case "MAXU16":
		return Val{S: "65535", Sort: sInt}
	case "MAXINT":
		return Val{S: "9223372036854775807", Sort: sInt}
	}
	if m, ok := env.eng.macros[name]; ok && len(m.Params) == 0 {
		return env.eval(m.Expr)
	}
	if env.pkg != nil {
		if obj := env.pkg.Scope().Lookup(name); obj != nil {
			if v, ok := env.objVal(obj); ok {
				return v
			}
		}
	}
	if f, ok := env.vc.g.specFns[name]; ok && len(f.Params) == 0 {
		_, srt := env.eng.specType(f.Result, env.pkg)
		return Val{S: "spec_" + name, Sort: srt}
	}
	env.fail("unknown identifier %q", name)
	return Val{}
}

func (env *SpecEnv) objVal(obj types.Object) (Val, bool) {
	g := env.vc.g
	switch o := obj.(type) {
	case *types.Const:
		srt := g.sortOf(o.Type())
		switch o.Val().Kind() {
		case constant.Int:
			s := o.Val().ExactString()
			if strings.HasPrefix(s, "-") {
				s = "(- " + s[1:] + ")"
			}
			return Val{S: s, Sort: sInt, T: o.Type()}, true
		case constant.String:
			return Val{S: g.strLit(constant.StringVal(o.Val())), Sort: sStr, T: o.Type()}, true
		case constant.Bool:
			return Val{S: strconv.FormatBool(constant.BoolVal(o.Val())), Sort: sBool, T: o.Type()}, true
		}
		_ = srt
	case *types.Func:
		// a package-level function named in a contract: its address constant (the value a function-typed variable holds)
		if sp := env.eng.ssaPkgs[o.Pkg().Path()]; sp != nil && env.a != nil {
			if f := sp.Func(o.Name()); f != nil {
				return Val{S: env.a.fnAddr(f), Sort: sInt, T: o.Type()}, true
			}
		}
	case *types.Var:
		if sp := env.eng.ssaPkgs[o.Pkg().Path()]; sp != nil {
			if gl, ok := sp.Members[o.Name()].(*ssa.Global); ok {
				if r, ok := env.a.constGlobalVal(gl); ok {
					return r, true
				}
			}
		}
		// package-level variable: its address constant, loaded in current state
		n := "glob_" + sanitize(o.Pkg().Name()+"_"+o.Name())
		g.decl("const "+n, fmt.Sprintf("(declare-const %s Int)", n))
		if g.structInfoOf(o.Type()) != nil {
			return Val{Addr: n, T: o.Type(), Sort: g.sortOf(o.Type())}, true
		}
		return env.a.loadAt(env.st, n, o.Type()), true
	}
	return Val{}, false
}

func (env *SpecEnv) localVar(name string) (Val, bool) {
	a := env.a
	want := name
	ord := 1
	if i := strings.Index(name, "#"); i >= 0 {
		want = name[:i]
		ord, _ = strconv.Atoi(name[i+1:])
	}
	n := 0
	for _, b := range a.fn.Blocks {
		for _, in := range b.Instrs {
			al, ok := in.(*ssa.Alloc)
			if !ok || al.Comment != want {
				continue
			}
			n++
			if n != ord {
				continue
			}
			if !al.Heap {
				c := a.cells[al]
				if c == nil {
					return Val{}, false
				}
				v, ok := env.st.cells[c]
				if !ok {
					return a.zero(c.T), true
				}
				if v.T == nil {
					v.T = c.T
				}
				return v, true
			}
			r, ok := a.regs[al]
			if !ok {
				return Val{}, false
			}
			et := deref(al.Type())
			if env.vc.g.structInfoOf(et) != nil {
				return Val{Addr: r.S, T: et, Sort: env.vc.g.sortOf(et)}, true
			}
			return a.loadAt(env.st, r.S, et), true
		}
	}
	return Val{}, false
}

// fieldPath finds the index path of a (possibly promoted) field.
func fieldPath(t types.Type, name string, pkg *types.Package) ([]int, types.Type, bool) {
	// try with every package that could own unexported fields: use the type's own package
	var p *types.Package
	if n, ok := types.Unalias(deref(t)).(*types.Named); ok {
		p = n.Obj().Pkg()
	}
	if p == nil {
		p = pkg
	}
	obj, idx, _ := types.LookupFieldOrMethod(t, true, p, name)
	if v, ok := obj.(*types.Var); ok && v.IsField() {
		return idx, v.Type(), true
	}
	if pkg != nil && pkg != p {
		obj, idx, _ = types.LookupFieldOrMethod(t, true, pkg, name)
		if v, ok := obj.(*types.Var); ok && v.IsField() {
			return idx, v.Type(), true
		}
	}
	return nil, nil, false
}

func (env *SpecEnv) sel(x SSel) Val {
	g := env.vc.g
	// qualified identifier pkg.Name
	if id, ok := x.X.(SIdent); ok {
		if _, isVar := env.vars[id.Name]; !isVar {
			if _, isLocal := env.localVarQuiet(id.Name); !isLocal {
				if p := env.eng.findPkg(id.Name, env.pkg); p != nil {
					if obj := p.Scope().Lookup(x.Name); obj != nil {
						if v, ok := env.objVal(obj); ok {
							return v
						}
					}
					env.fail("unknown %s.%s", id.Name, x.Name)
				}
			}
		}
	}
	base := env.eval(x.X)
	if base.Tup != nil {
		i, err := strconv.Atoi(x.Name)
		if err != nil || i >= len(base.Tup) {
			env.fail("bad tuple component %s", x.Name)
		}
		return base.Tup[i]
	}
	if base.T == nil {
		env.fail("field %s of untyped value", x.Name)
	}
	t := base.T
	path, _, ok := fieldPath(t, x.Name, env.pkg)
	if !ok {
		env.fail("no field %s in %s", x.Name, types.TypeString(t, nil))
	}
	cur := base
	for _, i := range path {
		// cur is: pointer to struct (Sort Int), struct at Addr, or struct value
		ct := cur.T
		if _, isPtr := ct.Underlying().(*types.Pointer); isPtr {
			if cur.P != nil && cur.P.Kind == ptrLocal {
				cv := env.st.cells[cur.P.Local]
				cur = env.a.getPath(cv, cur.P.Path)
				ct = cur.T
			} else {
				cur = Val{Addr: cur.S, T: deref(ct), Sort: g.sortOf(deref(ct))}
				ct = cur.T
			}
		}
		si := g.structInfoOf(ct)
		if si == nil {
			env.fail("selector on non-struct %s", types.TypeString(ct, nil))
		}
		f := si.Fields[i]
		if cur.S == "" && cur.Addr != "" {
			if g.structInfoOf(f.T) != nil {
				cur = Val{Addr: app(g.fldFn(si, i), cur.Addr), T: f.T, Sort: f.Sort}
			} else {
				cur = env.a.loadField(env.st, cur.Addr, ct, i)
				env.typedFact(cur)
			}
		} else {
			cur = Val{S: app(f.Sel, cur.S), Sort: f.Sort, T: f.T}
		}
	}
	return cur
}

var boundVarRe = regexp.MustCompile(`\bq[0-9]+_`)

// typedFact asserts the well-typedness (range) fact of a value read from the heap, when it is closed.
func (env *SpecEnv) typedFact(v Val) {
	if v.T == nil || v.S == "" || boundVarRe.MatchString(v.S) {
		return
	}
	if f := env.vc.g.rangeFact(v.T, v.S); f != "true" {
		env.vc.assume("true", f)
	}
	// a reference read from the heap of state st is allocated in st (same well-formedness fact as for loads in code)
	if _, isTP := isTypeParam(v.T); env.st != nil && env.st.top != "" && !isTP {
		switch v.T.Underlying().(type) {
		case *types.Pointer, *types.Map, *types.Chan:
			if v.Sort == sInt {
				env.vc.assume(env.st.guard, fmt.Sprintf("(<= (base %s) %s)", v.S, env.st.top))
			}
		case *types.Slice:
			if v.Sort == sSlice {
				env.vc.assume(env.st.guard, fmt.Sprintf("(<= (base (sl_arr %s)) %s)", v.S, env.st.top))
			}
		case *types.Interface:
			if v.Sort == sIface {
				env.vc.assume(env.st.guard, fmt.Sprintf("(<= (base (ival %s)) %s)", v.S, env.st.top))
			}
		}
	}
}

func (env *SpecEnv) localVarQuiet(name string) (Val, bool) {
	if env.a == nil || env.a.fn == nil {
		return Val{}, false
	}
	return env.localVar(name)
}

func (env *SpecEnv) index(x SIndex) Val {
	g := env.vc.g
	base := env.force(env.eval(x.X))
	i := env.force(env.eval(x.I))
	if base.T != nil {
		switch u := base.T.Underlying().(type) {
		case *types.Slice:
			s := base.S
			addr := fmt.Sprintf("(selem %s %s)", s, i.S)
			if g.structInfoOf(u.Elem()) != nil {
				return Val{Addr: addr, T: u.Elem(), Sort: g.sortOf(u.Elem())}
			}
			r := env.a.loadAt(env.st, addr, u.Elem())
			env.typedFact(r)
			return r
		case *types.Map:
			dk, ds, vk, vs, _, _ := env.a.mapHeaps(env.st, u)
			i = env.a.convKey(env.st, i, u.Key())
			// Go semantics: the zero value for absent keys
			present := and(not(eq(base.S, "0")), sel(sel(env.vc.getHeap(env.st, dk, ds), base.S), i.S))
			z := env.a.zero(u.Elem())
			return Val{S: ite(present, sel(sel(env.vc.getHeap(env.st, vk, vs), base.S), i.S), z.S), Sort: g.sortOf(u.Elem()), T: u.Elem()}
		case *types.Basic:
			if base.Sort == sStr {
				return Val{S: app("str_at", base.S, i.S), Sort: sInt}
			}
		case *types.Array:
			return Val{S: sel(base.S, i.S), Sort: g.sortOf(u.Elem()), T: u.Elem()}
		}
	}
	if strings.HasPrefix(base.Sort, "(Array ") {
		_, vs := splitArraySort(base.Sort)
		return Val{S: sel(base.S, i.S), Sort: vs}
	}
	if base.Sort == sStr {
		return Val{S: app("str_at", base.S, i.S), Sort: sInt}
	}
	env.fail("cannot index value of sort %s", base.Sort)
	return Val{}
}

// splitArraySort splits "(Array K V)" into K and V.
func splitArraySort(s string) (string, string) {
	inner := strings.TrimSuffix(strings.TrimPrefix(s, "(Array "), ")")
	d := 0
	for i, c := range inner {
		switch c {
		case '(':
			d++
		case ')':
			d--
		case ' ':
			if d == 0 {
				return inner[:i], inner[i+1:]
			}
		}
	}
	return inner, ""
}

func (env *SpecEnv) quant(x SQuant) Val {
	n := *env
	n.vars = make(map[string]Val, len(env.vars)+len(x.Vars))
	for k, v := range env.vars {
		n.vars[k] = v
	}
	var binds []string
	var facts []string
	env.depth++
	for _, v := range x.Vars {
		t, srt := env.eng.specType(v.Type, env.pkg)
		nm := fmt.Sprintf("q%d_%s", env.vc.nextQ(), sanitize(v.Name))
		binds = append(binds, fmt.Sprintf("(%s %s)", nm, srt))
		n.vars[v.Name] = Val{S: nm, Sort: srt, T: t}
		if t != nil {
			// only integer ranges restrict quantified variables; structural well-formedness of slices/interfaces is not
			// demanded of the instantiating terms (heap contents are not known to satisfy it syntactically)
			if _, isBasic := t.Underlying().(*types.Basic); isBasic {
				if f := env.vc.g.rangeFact(t, nm); f != "true" {
					facts = append(facts, f)
				}
			}
		}
	}
	body := n.force(n.eval(x.Body))
	n.want(body, sBool, "quantifier body")
	var pats []string
	for _, grp := range x.Triggers {
		var ts []string
		for _, t := range grp {
			tv := n.force(n.eval(t))
			ts = append(ts, tv.S)
		}
		pats = append(pats, ":pattern ("+strings.Join(ts, " ")+")")
	}
	q := "forall"
	b := body.S
	if x.Forall {
		b = implies(and(facts...), b)
	} else {
		q = "exists"
		b = and(append(facts, b)...)
	}
	if len(pats) > 0 {
		b = "(! " + b + " " + strings.Join(pats, " ") + ")"
	}
	return Val{S: fmt.Sprintf("(%s (%s) %s)", q, strings.Join(binds, " "), b), Sort: sBool}
}

func (vc *VC) nextQ() int { vc.n++; return vc.n }

func (env *SpecEnv) call(x SCall) Val {
	g := env.vc.g
	a := env.a
	arg := func(i int) Val {
		if i >= len(x.Args) {
			env.fail("%s: missing argument %d", x.Fun, i)
		}
		return env.force(env.eval(x.Args[i]))
	}
	switch x.Fun {
	case "len":
		v := arg(0)
		switch {
		case v.Sort == sSlice:
			return Val{S: "(sl_len " + v.S + ")", Sort: sInt}
		case v.Sort == sStr:
			return Val{S: app("strlen", v.S), Sort: sInt}
		case v.T != nil:
			if _, ok := v.T.Underlying().(*types.Map); ok {
				return Val{S: a.mapLen(env.st, v), Sort: sInt}
			}
			if at, ok := v.T.Underlying().(*types.Array); ok {
				return Val{S: fmt.Sprint(at.Len()), Sort: sInt}
			}
		}
		env.fail("len of sort %s", v.Sort)
	case "cap":
		v := arg(0)
		if v.Sort == sSlice {
			return Val{S: "(sl_cap " + v.S + ")", Sort: sInt}
		}
		env.fail("cap of sort %s", v.Sort)
	case "dom":
		m := arg(0)
		mt, ok := m.T.Underlying().(*types.Map)
		if !ok {
			env.fail("dom of non-map")
		}
		dk, ds, _, _, ks, _ := a.mapHeaps(env.st, mt)
		srt := "(Array " + ks + " Bool)"
		return Val{S: ite(eq(m.S, "0"), "((as const "+srt+") false)", sel(env.vc.getHeap(env.st, dk, ds), m.S)), Sort: srt}
	case "rawdom":
		// rawdom(m)[k]: domain array without the nil-map guard (usable in triggers)
		m := arg(0)
		mt, ok := m.T.Underlying().(*types.Map)
		if !ok {
			env.fail("rawdom of non-map")
		}
		dk, ds, _, _, ks, _ := a.mapHeaps(env.st, mt)
		return Val{S: sel(env.vc.getHeap(env.st, dk, ds), m.S), Sort: "(Array " + ks + " Bool)"}
	case "mapval":
		// mapval(m, k): the raw stored value at key k (typed; meaningful only where k is in m)
		m := arg(0)
		mt, ok := m.T.Underlying().(*types.Map)
		if !ok {
			env.fail("mapval of non-map")
		}
		_, _, vk, vs, _, vsrt := a.mapHeaps(env.st, mt)
		k := a.convKey(env.st, arg(1), mt.Key())
		return Val{S: sel(sel(env.vc.getHeap(env.st, vk, vs), m.S), k.S), Sort: vsrt, T: mt.Elem()}
	case "mapvals":
		m := arg(0)
		mt, ok := m.T.Underlying().(*types.Map)
		if !ok {
			env.fail("mapvals of non-map")
		}
		_, _, vk, vs, ks, vsrt := a.mapHeaps(env.st, mt)
		return Val{S: sel(env.vc.getHeap(env.st, vk, vs), m.S), Sort: "(Array " + ks + " " + vsrt + ")"}
	case "bytes", "string":
		v := arg(0)
		if v.Sort == sStr {
			return v
		}
		if v.Sort == sSlice {
			if boundVarRe.MatchString(v.S) {
				// under a quantifier: no global definitions, inline the term
				k, hs := memKey(sInt)
				return Val{S: fmt.Sprintf("(str_of %s (sl_arr %s) (sl_off %s) (sl_len %s))", env.vc.getHeap(env.st, k, hs), v.S, v.S, v.S), Sort: sStr, T: types.Typ[types.String]}
			}
			return Val{S: a.bytesStr(env.st, v), Sort: sStr, T: types.Typ[types.String]}
		}
		env.fail("bytes() of sort %s", v.Sort)
	case "arr":
		v := arg(0)
		return Val{S: "(sl_arr " + v.S + ")", Sort: sInt}
	case "off":
		v := arg(0)
		return Val{S: "(sl_off " + v.S + ")", Sort: sInt}
	case "typeof":
		v := arg(0)
		env.want(v, sIface, "typeof")
		return Val{S: "(itag " + v.S + ")", Sort: sInt}
	case "typetag":
		// typetag(pkg.Type) or typetag(*pkg.Type): tag constant of a Go type
		if len(x.Args) != 1 {
			env.fail("typetag needs one argument")
		}
		ts := specExprString(x.Args[0])
		t, _ := env.eng.specType(ts, env.pkg)
		if t == nil {
			env.fail("typetag: unknown type %s", ts)
		}
		return Val{S: fmt.Sprint(g.typeTag(t)), Sort: sInt}
	case "istype":
		// istype(v, T): dynamic type of interface v is T
		v := arg(0)
		env.want(v, sIface, "istype")
		ts := specExprString(x.Args[1])
		t, _ := env.eng.specType(ts, env.pkg)
		if t == nil {
			env.fail("istype: unknown type %s", ts)
		}
		return Val{S: eq("(itag "+v.S+")", fmt.Sprint(g.typeTag(t))), Sort: sBool}
	case "unbox":
		// unbox(v, T): payload of interface v as type T
		v := arg(0)
		ts := specExprString(x.Args[1])
		t, srt := env.eng.specType(ts, env.pkg)
		if t == nil {
			env.fail("unbox: unknown type %s", ts)
		}
		if srt == sInt {
			return Val{S: "(ival " + v.S + ")", Sort: sInt, T: t}
		}
		bx := "box_" + sanitize(srt)
		g.decl("fn "+bx, fmt.Sprintf("(declare-fun %s (%s) Int)", bx, srt))
		g.decl("fn un"+bx, fmt.Sprintf("(declare-fun un%s (Int) %s)", bx, srt))
		return Val{S: app("un"+bx, "(ival "+v.S+")"), Sort: srt, T: t}
	case "asiface":
		// asiface(x): the interface value holding the concrete value x
		v := arg(0)
		if v.T == nil {
			env.fail("asiface of untyped value")
		}
		return env.a.makeIface(env.st, v, types.NewInterfaceType(nil, nil))
	case "box":
		// box(x): the interface payload a value of x's type gets when stored in an interface
		v := arg(0)
		if v.Sort == sInt {
			return v
		}
		bx := "box_" + sanitize(v.Sort)
		g.decl("fn "+bx, fmt.Sprintf("(declare-fun %s (%s) Int)", bx, v.Sort))
		g.decl("fn un"+bx, fmt.Sprintf("(declare-fun un%s (Int) %s)", bx, v.Sort))
		g.addAxiom("("+bx+" ", fmt.Sprintf("(forall ((x %s)) (! (= (un%s (%s x)) x) :pattern ((%s x))))", v.Sort, bx, bx, bx))
		return Val{S: app(bx, v.S), Sort: sInt}
	case "ref":
		v := arg(0)
		if v.Sort == sIface {
			return Val{S: "(ival " + v.S + ")", Sort: sInt}
		}
		return Val{S: v.S, Sort: sInt}
	case "addr":
		v := env.eval(x.Args[0])
		if v.Addr == "" {
			env.fail("addr() of non-addressable value")
		}
		return Val{S: v.Addr, Sort: sInt, T: types.NewPointer(v.T)}
	case "base":
		// allocation identity of a reference (the unit "fresh" and the frame conditions talk about)
		v := arg(0)
		r := v.S
		if v.Sort == sSlice {
			r = "(sl_arr " + v.S + ")"
		} else if v.Sort == sIface {
			r = "(ival " + v.S + ")"
		}
		return Val{S: "(base " + r + ")", Sort: sInt}
	case "fresh":
		v := arg(0)
		if env.old == nil {
			env.fail("fresh() needs an entry state")
		}
		r := v.S
		if v.Sort == sSlice {
			r = "(sl_arr " + v.S + ")"
		}
		return Val{S: "(> (base " + r + ") " + env.oldTop() + ")", Sort: sBool}
	case "visited":
		n := 0
		if lit, ok := x.Args[0].(SInt); ok {
			n, _ = strconv.Atoi(lit.V)
		} else {
			n, _ = strconv.Atoi(arg(0).S)
		}
		for rng, it := range a.iters {
			_ = rng
			if a.loopOfRange(it) == n && it.visited != "" {
				srt := "(Array " + it.keySort + " Bool)"
				return Val{S: env.vc.getHeap(env.st, it.visited, srt), Sort: srt}
			}
		}
		env.fail("visited(%d): no map range in that loop", n)
	case "ite":
		c, p, q := arg(0), arg(1), arg(2)
		p, q = env.unifyNil(p, q)
		return Val{S: ite(c.S, p.S, q.S), Sort: p.Sort, T: p.T}
	case "min", "max":
		p, q := arg(0), arg(1)
		op := "<="
		if x.Fun == "max" {
			op = ">="
		}
		if p.Sort == sStr {
			c := not(app("strlt", q.S, p.S))
			if x.Fun == "max" {
				c = not(app("strlt", p.S, q.S))
			}
			return Val{S: ite(c, p.S, q.S), Sort: sStr}
		}
		return Val{S: ite("("+op+" "+p.S+" "+q.S+")", p.S, q.S), Sort: sInt}
	case "int", "uint64", "uint32", "uint", "int64", "uint16", "uint8":
		v := arg(0)
		return Val{S: v.S, Sort: sInt}
	case "inrange":
		// inrange(x, T): x fits Go integer type T
		v := arg(0)
		ts := specExprString(x.Args[1])
		t, _ := env.eng.specType(ts, env.pkg)
		return Val{S: g.rangeFact(t, v.S), Sort: sBool}
	case "nsent":
		// nsent("pkg.Type.fieldOrMethod"): number of values sent so far on that channel (engine ghost)
		lit, ok := x.Args[0].(SStr)
		if !ok {
			env.fail("nsent needs a string literal channel key")
		}
		key := lit.V
		if !strings.Contains(key, "/") {
			if i := strings.Index(key, "."); i >= 0 {
				if p := env.eng.findPkg(key[:i], env.pkg); p != nil && p.Name() == key[:i] {
					key = p.Path() + key[i:]
				}
			}
		}
		H := env.vc.getHeap(env.st, "G:nsent", "(Array Int Int)")
		return Val{S: sel(H, env.eng.chanID(key)), Sort: sInt}
	case "top":
		return Val{S: env.st.top, Sort: sInt}
	case "envfailed":
		return Val{S: env.vc.envFailed(), Sort: sBool}
	case "mkstruct":
		// mkstruct(pkg.Type, field values in declaration order)
		ts := specExprString(x.Args[0])
		t, srt := env.eng.specType(ts, env.pkg)
		si := g.structInfoOf(t)
		if t == nil || si == nil {
			env.fail("mkstruct: unknown struct type %s", ts)
		}
		if len(x.Args)-1 != len(si.Fields) {
			env.fail("mkstruct(%s): expected %d field values", ts, len(si.Fields))
		}
		var fs []string
		for i := range si.Fields {
			v := arg(i + 1)
			if v.Sort == "nil" {
				v = env.a.zero(si.Fields[i].T)
			}
			if v.Sort != si.Fields[i].Sort {
				env.fail("mkstruct(%s): field %s has sort %s, want %s", ts, si.Fields[i].Name, v.Sort, si.Fields[i].Sort)
			}
			fs = append(fs, v.S)
		}
		return Val{S: app("mk_"+si.Sort, fs...), Sort: srt, T: t}
	case "update":
		// update(array, index, value)
		arr, idx, v := arg(0), arg(1), arg(2)
		return Val{S: store(arr.S, idx.S, v.S), Sort: arr.Sort}
	case "zero":
		ts := specExprString(x.Args[0])
		t, _ := env.eng.specType(ts, env.pkg)
		if t == nil {
			env.fail("zero: unknown type %s", ts)
		}
		return env.a.zero(t)
	}
	// ghost fields
	if gh, ok := g.ghosts[x.Fun]; ok {
		k := env.eval(x.Args[0])
		if k.S == "" && k.Addr != "" {
			k = Val{S: k.Addr, Sort: sInt}
		}
		k = env.force(k)
		idx := k.S
		if k.Sort == sIface {
			idx = "(ival " + k.S + ")"
		}
		key, hs := ghostKey(gh)
		return Val{S: sel(env.vc.getHeap(env.st, key, hs), idx), Sort: gh.ValSort}
	}
	// macros
	if m, ok := env.eng.macros[x.Fun]; ok {
		if len(m.Params) != len(x.Args) {
			env.fail("macro %s expects %d args", x.Fun, len(m.Params))
		}
		n := *env
		n.vars = make(map[string]Val, len(env.vars)+len(m.Params))
		for k, v := range env.vars {
			n.vars[k] = v
		}
		for i, p := range m.Params {
			n.vars[p] = env.eval(x.Args[i])
		}
		if mp := env.eng.pkgByPath[m.PkgPath]; mp != nil {
			n.pkg = mp
		}
		return n.eval(m.Expr)
	}
	// spec functions
	if f, ok := g.specFns[x.Fun]; ok {
		if len(f.Params) != len(x.Args) {
			env.fail("spec function %s expects %d args", x.Fun, len(f.Params))
		}
		var as []string
		for i := range x.Args {
			v := arg(i)
			pp := env.pkg
			if f.pkg != nil {
				pp = f.pkg
			}
			_, psort := env.eng.specType(f.Params[i].Type, pp)
			if v.Sort == "nil" {
				v.Sort = psort
				if psort == sSlice {
					v.S = "(mk_Slice 0 0 0 0)"
				} else if psort == sIface {
					v.S = "(mk_Iface 0 0)"
				}
			}
			if v.Sort != psort {
				env.fail("spec function %s: argument %d has sort %s, want %s", x.Fun, i, v.Sort, psort)
			}
			as = append(as, v.S)
		}
		// heap-dependent spec functions take the current heaps as extra arguments
		env.eng.resolveReads(f)
		for i, hk := range f.Heaps {
			h := env.vc.getHeap(env.st, hk, f.HeapSorts[i])
			as = append(as, h)
			if wt := env.eng.wtPred(hk, f.HeapSorts[i]); wt != "" && !strings.HasPrefix(h, "axh") && !strings.HasPrefix(h, "axg") {
				env.vc.assumeOnce(app(wt, h))
			}
		}
		rp := env.pkg
		if f.pkg != nil {
			rp = f.pkg
		}
		t, srt := env.eng.specType(f.Result, rp)
		return Val{S: app("spec_"+x.Fun, as...), Sort: srt, T: t}
	}
	env.fail("unknown function %s in spec", x.Fun)
	return Val{}
}

func (env *SpecEnv) oldTop() string {
	if env.old != nil {
		return env.old.top
	}
	return "0"
}

func (a *Act) loopOfRange(it *iterInfo) int {
	// the loop whose header contains (or is dominated-by relationship) the Next on this range
	for h, n := range a.loopOrd {
		for b := range a.loopBody[h] {
			for _, in := range b.Instrs {
				if nx, ok := in.(*ssa.Next); ok && nx.Iter == ssa.Value(it.rng) {
					// choose innermost loop containing the Next
					inner := true
					for h2 := range a.loopBody {
						if h2 != h && a.loopBody[h][h2] && a.loopBody[h2][b] {
							inner = false
						}
					}
					if inner {
						return n
					}
				}
			}
		}
	}
	return 0
}

func ghostKey(gh *Ghost) (string, string) {
	return "G:" + gh.Name, "(Array " + gh.KeySort + " " + gh.ValSort + ")"
}

func specExprString(e SExpr) string {
	switch x := e.(type) {
	case SIdent:
		return x.Name
	case SSel:
		return specExprString(x.X) + "." + x.Name
	case SDeref:
		return "*" + specExprString(x.X)
	case SStr:
		return x.V
	}
	return ""
}
