package main

import (
	"fmt"
	"go/token"
	"go/types"
	"sort"
	"strings"

	"golang.org/x/tools/go/ssa"
)

var repoRoot = "/repo"

// VC accumulates declarations, assumptions and obligations for one verified function.
type VC struct {
	envF    string // see envFailed
	eng     *Engine
	g       *Globals
	fnName  string
	decls   []string
	asserts []string
	obls    []*Obl
	n       int
	warns   []string
	assumed []string // unchecked assumptions encountered (havocked calls etc.)
	unsupp  []string // unsupported constructs (make function outside subset)
	quiet   int      // >0: discovery mode, no obligations/warnings recorded
	heapSorts map[string]string
	gens      int
	havocAll  bool
	sends     []string
	fn        *ssa.Function
	act       *Act
	without   []string // axioms excluded (lemmas that justify them)
}

type Obl struct {
	PrePrefix int // relative covers: number of assertions before the step whose effect on the path is checked (0: absolute cover)
	Name    string
	Kind    string
	Props   []string
	Fn      string
	Pos     string
	Prefix  int
	NDecl   int
	Goal    string
	OnlyProps []string // clause tagged [Cxx,...]: checked only under these properties (assumed under the others)
	SkDecls []string // set on split parts: the goal is already skolemised, these are its constants
	Desc    string
	vc      *VC
	Result  string // unsat / sat / unknown / timeout / error
	Solver  string
	Secs    float64
	Model   string
	Out     string
	Cover   bool // expected SAT (vacuity / reachability)
	Bounded bool
	Script  string
	Agree   int
	Clause  *Clause
}

// envFailed names the per-function boolean "the environment failed during this call": the context was cancelled (a
// gchan send or request gave up) or a store returned an error. It only ever becomes known true; contracts use it as
// envfailed() to say that a function reports failure for no other reason.
func (vc *VC) envFailed() string {
	if vc.envF == "" {
		if vc.quiet > 0 {
			// discovery pass: its declarations are rolled back, so do not cache the name
			return vc.fresh("envfailed", sBool)
		}
		vc.envF = vc.fresh("envfailed", sBool)
	}
	return vc.envF
}

func (vc *VC) fresh(prefix, sort string) string {
	vc.n++
	n := fmt.Sprintf("%s!%d", sanitize(prefix), vc.n)
	vc.decls = append(vc.decls, fmt.Sprintf("(declare-const %s %s)", n, sort))
	return n
}

// define introduces a named constant equal to term (keeps terms small).
func (vc *VC) define(prefix, sort, term string) string {
	if isAtom(term) {
		return term
	}
	n := vc.fresh(prefix, sort)
	vc.asserts = append(vc.asserts, eq(n, term))
	return n
}

func isAtom(t string) bool {
	return !strings.ContainsAny(t, " (")
}

func (vc *VC) assume(guard, fact string) {
	if fact == "true" {
		return
	}
	vc.asserts = append(vc.asserts, implies(guard, fact))
}

// assumeOnce adds an unconditional fact unless it is already present.
func (vc *VC) assumeOnce(fact string) {
	for _, a := range vc.asserts {
		if a == fact {
			return
		}
	}
	vc.asserts = append(vc.asserts, fact)
}

func (vc *VC) warn(f string, a ...any) {
	if vc.quiet > 0 {
		return
	}
	vc.warns = append(vc.warns, fmt.Sprintf(f, a...))
}

func (vc *VC) unsupported(f string, a ...any) {
	if vc.quiet > 0 {
		return
	}
	s := fmt.Sprintf(f, a...)
	for _, u := range vc.unsupp {
		if u == s {
			return
		}
	}
	vc.unsupp = append(vc.unsupp, s)
}

func (vc *VC) noteAssumed(s string) {
	if vc.quiet > 0 {
		return
	}
	for _, u := range vc.assumed {
		if u == s {
			return
		}
	}
	vc.assumed = append(vc.assumed, s)
}

// oblige records an obligation guard => goal, and then assumes it.
func (vc *VC) oblige(name, kind string, props []string, pos string, guard, goal, desc string) {
	if vc.quiet > 0 {
		vc.assume(guard, goal)
		return
	}
	full := implies(guard, goal)
	if full == "true" {
		// trivially true; still count as discharged obligation
		vc.obls = append(vc.obls, &Obl{Name: name, Kind: kind, Props: props, Fn: vc.fnName, Pos: pos, Prefix: len(vc.asserts), NDecl: len(vc.decls), Goal: "true", Desc: desc, vc: vc, Result: "unsat", Solver: "trivial"})
		return
	}
	vc.obls = append(vc.obls, &Obl{Name: name, Kind: kind, Props: props, Fn: vc.fnName, Pos: pos, Prefix: len(vc.asserts), NDecl: len(vc.decls), Goal: full, Desc: desc, vc: vc})
	vc.assume(guard, goal)
}

// obligeNoAssume records an obligation without assuming it afterwards.
func (vc *VC) obligeNoAssume(name, kind string, props []string, pos string, guard, goal, desc string) {
	if vc.quiet > 0 {
		return
	}
	full := implies(guard, goal)
	o := &Obl{Name: name, Kind: kind, Props: props, Fn: vc.fnName, Pos: pos, Prefix: len(vc.asserts), NDecl: len(vc.decls), Goal: full, Desc: desc, vc: vc}
	if full == "true" {
		o.Result, o.Solver = "unsat", "trivial"
	}
	vc.obls = append(vc.obls, o)
}

// cover records a reachability query: guard (with assumptions) must be satisfiable.
func (vc *VC) cover(name string, props []string, pos, guard, desc string) {
	if vc.quiet > 0 {
		return
	}
	vc.obls = append(vc.obls, &Obl{Name: name, Kind: "cover", Props: props, Fn: vc.fnName, Pos: pos, Prefix: len(vc.asserts), NDecl: len(vc.decls), Goal: guard, Desc: desc, vc: vc, Cover: true})
}

// coverStep records a relative reachability query: if the path was feasible with the first prePrefix assertions, it must
// still be feasible now (a contract applied at a call site must not make the rest of the path vacuous).
func (vc *VC) coverStep(name string, props []string, pos, guard, desc string, prePrefix int) {
	if vc.quiet > 0 {
		return
	}
	vc.obls = append(vc.obls, &Obl{Name: name, Kind: "cover", Props: props, Fn: vc.fnName, Pos: pos, Prefix: len(vc.asserts), NDecl: len(vc.decls), Goal: guard, Desc: desc, vc: vc, Cover: true, PrePrefix: prePrefix})
}

// script renders the SMT-LIB script of an obligation.
func (o *Obl) script(produceModel bool) string { return o.scriptWith(produceModel, false, "") }

// scriptWith renders the script; allDecls includes declarations made after the obligation (used by replay queries),
// trailer is appended after (check-sat).
func (o *Obl) scriptWith(produceModel, allDecls bool, trailer string) string {
	vc := o.vc
	var b strings.Builder
	b.WriteString("; obligation " + o.Name + "\n; " + strings.ReplaceAll(o.Desc, "\n", " ") + "\n")
	if produceModel {
		b.WriteString("(set-option :produce-models true)\n")
	}
	b.WriteString("(set-logic ALL)\n")
	body := strings.Join(vc.asserts[:o.Prefix], "\n") + "\n" + o.Goal
	g := vc.g
	for _, d := range g.decls {
		b.WriteString(d + "\n")
	}
	// spec function decls
	for _, k := range sortedKeys(g.specFns) {
		f := g.specFns[k]
		b.WriteString(vc.eng.specFnDecl(f) + "\n")
	}
	nd := o.NDecl
	if allDecls {
		nd = len(vc.decls)
	}
	for _, d := range vc.decls[:nd] {
		b.WriteString(d + "\n")
	}
	for _, l := range g.background(body) {
		b.WriteString(l + "\n")
	}
	for _, ax := range vc.eng.axiomsForExcept(body, vc.without) {
		b.WriteString("(assert " + ax + ")\n")
	}
	for _, a := range vc.asserts[:o.Prefix] {
		b.WriteString("(assert " + a + ")\n")
	}
	if o.Cover {
		b.WriteString("(assert " + o.Goal + ")\n")
	} else {
		decls, goal := o.SkDecls, o.Goal
		if decls == nil {
			decls, goal = skolemizeGoal(o.Goal)
		}
		for _, d := range decls {
			b.WriteString(d + "\n")
		}
		b.WriteString("(assert (not " + goal + "))\n")
	}
	b.WriteString("(check-sat)\n")
	if trailer != "" {
		b.WriteString(trailer)
	} else if produceModel {
		b.WriteString("(get-model)\n")
	}
	return b.String()
}

func posStr(fset *token.FileSet, p token.Pos) string {
	if !p.IsValid() {
		return ""
	}
	ps := fset.Position(p)
	f := ps.Filename
	if strings.HasPrefix(f, repoRoot+"/") {
		f = f[len(repoRoot)+1:]
	} else if i := strings.Index(f, "/repo/"); i >= 0 {
		f = f[i+6:]
	}
	return fmt.Sprintf("%s:%d", f, ps.Line)
}

// ---- State ----

type State struct {
	guard  string
	cells  map[*Cell]Val
	heap   map[string]string
	top    string
	defers []deferRec
	gen    int // havoc generation: names the symbol used for heap keys not yet materialized
	evs    []havocEv // whole-heap havocs so far (immutable slices; append copies)
}

// havocEv records one whole-heap havoc; keys it does not affect keep the symbol of the previous generation.
type havocEv struct {
	gen    int
	all    bool     // ghosts too ("modifies heap")
	except []string // struct types whose field heaps are kept ("modifies memory except T")
}

func (ev havocEv) affects(key string) bool {
	if keptKey(key, ev.except) {
		return false
	}
	if ev.all {
		return true
	}
	return !strings.HasPrefix(key, "G:")
}

// genOf: the generation naming the not-yet-materialized heap key in st.
func (st *State) genOf(key string) int {
	for i := len(st.evs) - 1; i >= 0; i-- {
		if st.evs[i].affects(key) {
			return st.evs[i].gen
		}
	}
	return 0
}

func (st *State) pushHavoc(ev havocEv) {
	st.evs = append(append([]havocEv(nil), st.evs...), ev)
	st.gen = ev.gen
}

type deferRec struct {
	instr any
	args  []Val
	fnv   Val
}

func (s *State) clone() *State {
	n := &State{guard: s.guard, top: s.top, gen: s.gen, evs: s.evs, cells: make(map[*Cell]Val, len(s.cells)), heap: make(map[string]string, len(s.heap))}
	for k, v := range s.cells {
		n.cells[k] = v
	}
	for k, v := range s.heap {
		n.heap[k] = v
	}
	n.defers = append([]deferRec(nil), s.defers...)
	return n
}

// heapSorts remembers the sort of each heap key.
type heapReg struct {
	sorts map[string]string
}

// getHeap returns the current array term for key, creating the initial symbol on demand.
func (vc *VC) getHeap(st *State, key, sort string) string {
	if h, ok := st.heap[key]; ok {
		return h
	}
	// initial heap symbol: shared across all states of this VC (same name => same entry value)
	n := fmt.Sprintf("H%d_%s", st.genOf(key), sanitize(key))
	d := fmt.Sprintf("(declare-const %s %s)", n, sort)
	found := false
	for _, x := range vc.decls {
		if x == d {
			found = true
			break
		}
	}
	if !found {
		vc.decls = append(vc.decls, d)
		vc.heapSorts[key] = sort
	}
	st.heap[key] = n
	return n
}

func (vc *VC) setHeap(st *State, key, sort, term string) {
	vc.heapSorts[key] = sort
	st.heap[key] = vc.define("H_"+key, sort, term)
}

// mergeStates joins several predecessor states (with edge guards) into one.
func (vc *VC) mergeStates(ins []*State) *State {
	if len(ins) == 1 {
		return ins[0].clone()
	}
	var guards []string
	for _, s := range ins {
		guards = append(guards, s.guard)
	}
	out := &State{cells: map[*Cell]Val{}, heap: map[string]string{}}
	out.guard = vc.define("g", sBool, or(guards...))
	out.gen = ins[0].gen
	{
		// common prefix of the havoc histories; differing suffixes collapse into one conservative event
		n := len(ins[0].evs)
		for _, s := range ins[1:] {
			k := 0
			for k < n && k < len(s.evs) && s.evs[k].gen == ins[0].evs[k].gen {
				k++
			}
			n = k
		}
		out.evs = ins[0].evs[:n:n]
		differ := false
		ev := havocEv{}
		first := true
		for _, s := range ins {
			for _, e := range s.evs[n:] {
				differ = true
				ev.all = ev.all || e.all
				if first {
					ev.except = e.except
					first = false
				} else {
					var keep []string
					for _, x := range ev.except {
						for _, y := range e.except {
							if x == y {
								keep = append(keep, x)
							}
						}
					}
					ev.except = keep
				}
			}
		}
		if differ {
			vc.gens++
			ev.gen = vc.gens
			out.pushHavoc(ev)
		}
	}
	// top
	same := true
	for _, s := range ins[1:] {
		if s.top != ins[0].top {
			same = false
		}
	}
	if same {
		out.top = ins[0].top
	} else {
		t := vc.fresh("top", sInt)
		for _, s := range ins {
			vc.assume(s.guard, eq(t, s.top))
		}
		out.top = t
	}
	// cells: union of keys
	cellKeys := map[*Cell]bool{}
	for _, s := range ins {
		for k := range s.cells {
			cellKeys[k] = true
		}
	}
	var cks []*Cell
	for k := range cellKeys {
		cks = append(cks, k)
	}
	sort.Slice(cks, func(i, j int) bool { return cks[i].ID < cks[j].ID })
	for _, k := range cks {
		var first *Val
		same := true
		all := true
		for _, s := range ins {
			v, ok := s.cells[k]
			if !ok {
				all = false
				continue
			}
			if first == nil {
				vv := v
				first = &vv
			} else if v.S != first.S || v.Fn != first.Fn {
				same = false
			}
		}
		if !all {
			// variable not defined on all paths (declared in one branch): keep any defined value guarded
		}
		if same && first != nil {
			out.cells[k] = *first
			continue
		}
		m := vc.fresh("m_"+k.Name, first.Sort)
		for _, s := range ins {
			if v, ok := s.cells[k]; ok {
				vc.assume(s.guard, eq(m, v.S))
			}
		}
		out.cells[k] = Val{S: m, Sort: first.Sort, T: first.T}
	}
	// heaps
	hk := map[string]bool{}
	for _, s := range ins {
		for k := range s.heap {
			hk[k] = true
		}
	}
	for _, k := range sortedKeys(hk) {
		srt := vc.heapSorts[k]
		var terms []string
		same := true
		for _, s := range ins {
			t := vc.getHeap(s, k, srt)
			terms = append(terms, t)
			if t != terms[0] {
				same = false
			}
		}
		if same {
			out.heap[k] = terms[0]
			continue
		}
		m := vc.fresh("H_"+k, srt)
		for i, s := range ins {
			vc.assume(s.guard, eq(m, terms[i]))
		}
		out.heap[k] = m
	}
	// defers: must agree
	out.defers = append([]deferRec(nil), ins[0].defers...)
	for _, s := range ins[1:] {
		if len(s.defers) != len(out.defers) {
			// conditional defers: keep the common prefix if every extra deferred call is an effect-free library call
			// (e.g. defer t.Stop() on a time.Timer inside a branch); anything else is outside the subset
			n := 0
			for n < len(s.defers) && n < len(out.defers) && s.defers[n].instr == out.defers[n].instr {
				n++
			}
			ok := true
			for _, lst := range [][]deferRec{s.defers[n:], out.defers[n:]} {
				for _, d := range lst {
					df, isDefer := d.instr.(*ssa.Defer)
					if !isDefer || df.Call.StaticCallee() == nil || !vc.eng.effectFree(fnKey(df.Call.StaticCallee())) {
						ok = false
					}
				}
			}
			if ok {
				out.defers = out.defers[:n:n]
				continue
			}
			vc.unsupported("conditional defer (defer stacks differ at join)")
			if len(s.defers) > len(out.defers) {
				out.defers = append([]deferRec(nil), s.defers...)
			}
		}
	}
	return out
}

// rangeFacts returns the well-typedness constraint of a value of Go type t.
func (g *Globals) rangeFact(t types.Type, term string) string {
	if t == nil {
		return "true"
	}
	if _, ok := isTypeParam(t); ok {
		return "true"
	}
	switch u := t.Underlying().(type) {
	case *types.Basic:
		lo, hi, ok := intRange(u)
		if ok {
			return "(and (<= " + lo + " " + term + ") (<= " + term + " " + hi + "))"
		}
	case *types.Slice:
		return fmt.Sprintf("(and (<= 0 (sl_off %s)) (<= 0 (sl_len %s)) (<= (sl_len %s) (sl_cap %s)) (<= (sl_cap %s) 9223372036854775807) (>= (sl_arr %s) 0) (=> (= (sl_arr %s) 0) (= (sl_cap %s) 0)))", term, term, term, term, term, term, term, term)
	case *types.Pointer, *types.Map, *types.Chan:
		return "(>= " + term + " 0)"
	case *types.Interface:
		return "(and (>= (itag " + term + ") 0) (=> (= (itag " + term + ") 0) (= (ival " + term + ") 0)))"
	}
	return "true"
}

func intRange(b *types.Basic) (lo, hi string, ok bool) {
	switch b.Kind() {
	case types.Int, types.Int64, types.UntypedInt:
		return "(- 9223372036854775808)", "9223372036854775807", true
	case types.Int32, types.UntypedRune:
		return "(- 2147483648)", "2147483647", true
	case types.Int16:
		return "(- 32768)", "32767", true
	case types.Int8:
		return "(- 128)", "127", true
	case types.Uint, types.Uint64, types.Uintptr:
		return "0", "18446744073709551615", true
	case types.Uint32:
		return "0", "4294967295", true
	case types.Uint16:
		return "0", "65535", true
	case types.Uint8:
		return "0", "255", true
	}
	return "", "", false
}

func intBits(b *types.Basic) (bits int, signed bool, ok bool) {
	switch b.Kind() {
	case types.Int, types.Int64:
		return 64, true, true
	case types.Int32:
		return 32, true, true
	case types.Int16:
		return 16, true, true
	case types.Int8:
		return 8, true, true
	case types.Uint, types.Uint64, types.Uintptr:
		return 64, false, true
	case types.Uint32:
		return 32, false, true
	case types.Uint16:
		return 16, false, true
	case types.Uint8:
		return 8, false, true
	}
	return 0, false, false
}

func pow2(n int) string {
	switch n {
	case 8:
		return "256"
	case 16:
		return "65536"
	case 32:
		return "4294967296"
	case 63:
		return "9223372036854775808"
	case 64:
		return "18446744073709551616"
	case 7:
		return "128"
	case 15:
		return "32768"
	case 31:
		return "2147483648"
	}
	return "1"
}
