package main

import (
	"encoding/json"
	"flag"
	"fmt"
	"os"
	"path/filepath"
	"sort"
	"strconv"
	"strings"
	"time"
)

type PropCfg struct {
	Packages   []string `json:"packages"`
	MinObls    int      `json:"min_obligations"`
	Level      string   `json:"level"`
	Trusted    []string `json:"trusted_base"`
	Assume     []string `json:"assumptions"`
	NotCovered []string `json:"not_covered"`
	Bounded    []string `json:"bounded"`
}

var verifDir = "/verif"

func main() {
	if len(os.Args) < 2 {
		fmt.Fprintln(os.Stderr, "usage: gvc check <PROP> [--tier quick|thorough] | gvc dump <pkg> <func>")
		os.Exit(2)
	}
	if d := os.Getenv("GVC_VERIF_DIR"); d != "" {
		verifDir = d
	}
	switch os.Args[1] {
	case "check":
		os.Exit(cmdCheck(os.Args[2:]))
	case "dump":
		cmdDump(os.Args[2:])
	default:
		fmt.Fprintln(os.Stderr, "unknown command")
		os.Exit(2)
	}
}

func cmdDump(args []string) {
	repo := "/repo"
	if r := os.Getenv("GVC_REPO"); r != "" {
		repo = r
	}
	e := newEngine(repo)
	if err := e.load([]string{args[0]}); err != nil {
		fmt.Fprintln(os.Stderr, err)
		os.Exit(1)
	}
	for _, sp := range e.ssaPkgs {
		if !strings.HasPrefix(sp.Pkg.Path(), e.modPath) {
			continue
		}
		for _, k := range args[1:] {
			if fn := e.findFunc(sp.Pkg.Path() + "." + k); fn != nil {
				fn.WriteTo(os.Stdout)
				for _, af := range fn.AnonFuncs {
					af.WriteTo(os.Stdout)
				}
			}
		}
	}
}

type finding struct {
	Kind, Prop, Obl, Text string
}

func loadFindings() []finding {
	b, err := os.ReadFile(filepath.Join(verifDir, "known_findings.txt"))
	if err != nil {
		return nil
	}
	var out []finding
	for _, l := range strings.Split(string(b), "\n") {
		l = strings.TrimSpace(l)
		if l == "" || strings.HasPrefix(l, "#") {
			continue
		}
		var f finding
		switch {
		case strings.HasPrefix(l, "finding:"):
			f.Kind = "finding"
			l = strings.TrimSpace(l[8:])
		case strings.HasPrefix(l, "fixed:"):
			f.Kind = "fixed"
			l = strings.TrimSpace(l[6:])
		default:
			continue
		}
		if i := strings.Index(l, " :: "); i >= 0 {
			f.Text = strings.TrimSpace(l[i+4:])
			l = l[:i]
		}
		for _, kv := range strings.Fields(l) {
			if strings.HasPrefix(kv, "property=") {
				f.Prop = kv[9:]
			}
		}
		if i := strings.Index(l, "obligation="); i >= 0 {
			f.Obl = strings.TrimSpace(l[i+11:])
		}
		out = append(out, f)
	}
	return out
}

func cmdCheck(args []string) int {
	fs := flag.NewFlagSet("check", flag.ExitOnError)
	tier := fs.String("tier", "", "quick or thorough")
	verbose := fs.Bool("v", false, "verbose")
	only := fs.String("only", "", "only functions whose key contains this")
	noEvidence := fs.Bool("no-evidence", false, "do not write the evidence file")
	if len(args) < 1 {
		return 2
	}
	prop := args[0]
	fs.Parse(args[1:])
	if *tier == "" {
		*tier = os.Getenv("VERIF_TIER")
	}
	if *tier == "" {
		*tier = "quick"
	}
	seed, _ := strconv.Atoi(os.Getenv("VERIF_SEED"))
	repo := "/repo"
	if r := os.Getenv("GVC_REPO"); r != "" {
		repo = r
	}
	t0 := time.Now()
	var cfgs map[string]*PropCfg
	b, err := os.ReadFile(filepath.Join(verifDir, "props.json"))
	if err != nil {
		fmt.Fprintln(os.Stderr, "props.json:", err)
		return 2
	}
	if err := json.Unmarshal(b, &cfgs); err != nil {
		fmt.Fprintln(os.Stderr, "props.json:", err)
		return 2
	}
	cfg := cfgs[prop]
	if cfg == nil {
		fmt.Fprintln(os.Stderr, "unknown property", prop)
		return 2
	}
	outDir := filepath.Join(verifDir, "out", prop)
	if od := os.Getenv("GVC_OUT"); od != "" {
		// scratch runs (must-fail corpus) keep their scripts and replays apart from the registered checks' output
		outDir = filepath.Join(od, prop)
	}
	os.RemoveAll(outDir)
	os.MkdirAll(filepath.Join(outDir, "replay"), 0o755)

	e := newEngine(repo)
	e.verbose = *verbose
	var obls []*Obl
	var vcs []*VC
	var fnsUnder []string
	var trustedUsed = map[string]bool{}
	var thoroughOnly []string
	loadErr := e.load(cfg.Packages)
	if loadErr == nil {
		loadErr = e.loadSpecs(filepath.Join(verifDir, "prelude"))
	}
	if loadErr != nil {
		// the tree does not compile or contracts are broken: report as violation without input
		o := &Obl{Name: prop + "/load", Kind: "load", Props: []string{prop}, Desc: "repository loads, type-checks and contracts parse", Result: "error", Solver: "none", Out: loadErr.Error()}
		obls = append(obls, o)
	} else {
		registerModels(e)
		e.ensureAxioms()
		for _, le := range e.loadErrs {
			obls = append(obls, &Obl{Name: prop + "/contract-load", Kind: "load", Props: []string{prop}, Desc: "contract files are well-formed", Result: "error", Solver: "none", Out: le})
		}
		var keys []string
		for k, c := range e.contracts {
			if c.Trusted || !hasProp(c.Props, prop) {
				continue
			}
			if *only != "" && !strings.Contains(k, *only) {
				continue
			}
			if c.Opts["tier"] == "thorough" && *tier != "thorough" {
				// expensive function: its own obligations are checked in the thorough tier only (callers still use its contract)
				thoroughOnly = append(thoroughOnly, shortName(k))
				continue
			}
			keys = append(keys, k)
		}
		sort.Strings(keys)
		for _, k := range keys {
			c := e.contracts[k]
			if c.Iface {
				continue
			}
			fn := e.findFunc(k)
			if fn == nil {
				obls = append(obls, &Obl{Name: shortName(k) + "/exists", Kind: "exists", Props: c.Props, Fn: k, Desc: "function under contract exists in the code", Result: "error", Solver: "none", Out: "function " + k + " named by " + c.File + " not found"})
				continue
			}
			fnsUnder = append(fnsUnder, k)
			vc := e.verifyFn(fn, c)
			vcs = append(vcs, vc)
			obls = append(obls, vc.obls...)
		}
		for _, l := range e.lemmas {
			if !hasProp(l.Props, prop) {
				continue
			}
			if *only != "" && !strings.Contains(l.Name, *only) {
				continue
			}
			vc := e.verifyLemma(l)
			vcs = append(vcs, vc)
			obls = append(obls, vc.obls...)
		}
		obls = append(obls, e.extraObligations(prop, cfg)...)
	}
	// clauses tagged with properties are checked under those properties only (they are assumed under the others)
	{
		kept := obls[:0]
		for _, o := range obls {
			if len(o.OnlyProps) > 0 && !hasProp(o.OnlyProps, prop) {
				continue
			}
			kept = append(kept, o)
		}
		obls = kept
	}
	// give obligations property-qualified names
	for _, o := range obls {
		if !strings.HasPrefix(o.Name, prop+"/") {
			o.Name = prop + "/" + o.Name
		}
	}
	solveAll(obls, outDir, *tier, 16)

	findings := loadFindings()
	isKnown := func(name string) *finding {
		for i := range findings {
			f := &findings[i]
			if f.Kind == "finding" && f.Prop == prop && f.Obl == name {
				return f
			}
		}
		return nil
	}
	exit := 0
	nDis, nCover, nKnown, nViol := 0, 0, 0, 0
	bySolver := map[string]int{}
	solverSecs := 0.0
	var samples []any
	var undecided []string
	var knownLines []string
	seenKnown := map[string]bool{}
	for _, o := range obls {
		solverSecs += o.Secs
		if o.ok() {
			if o.Cover {
				nCover++
			} else {
				nDis++
			}
			bySolver[o.Solver]++
			if len(samples) < 4 && !o.Cover && o.Solver != "trivial" {
				samples = append(samples, map[string]any{"obligation": o.Name, "kind": o.Kind, "at": o.Pos, "goal": trunc(o.Desc, 300), "result": o.Result, "solver": o.Solver, "secs": round3(o.Secs)})
			}
			if *verbose {
				fmt.Printf("ok    %-70s %s %.2fs\n", o.Name, o.Solver, o.Secs)
			}
			continue
		}
		if f := isKnown(o.Name); f != nil {
			nKnown++
			if !seenKnown[o.Name] {
				seenKnown[o.Name] = true
				line := fmt.Sprintf("KNOWN-FINDING: property=%s %s :: %s", prop, o.Name, f.Text)
				fmt.Println(line)
				knownLines = append(knownLines, o.Name+" :: "+f.Text)
			}
			continue
		}
		nViol++
		exit = 1
		rp := filepath.Join(outDir, "replay", sanitize(o.Name)+".txt")
		reproduced := writeReplay(e, o, rp, repo)
		suffix := ""
		if !reproduced {
			suffix = " no-failing-input-found"
		}
		fmt.Printf("FAILED obligation %s [%s by %s] at %s\n    %s\n", o.Name, o.Result, o.Solver, o.Pos, trunc(o.Desc, 400))
		fmt.Printf("VIOLATION property=%s replay=%s%s\n", prop, rp, suffix)
		undecided = append(undecided, o.Name)
	}
	// a listed finding that no longer fails is fine (it may have been fixed), but say so
	for _, f := range findings {
		if f.Kind == "finding" && f.Prop == prop && !seenKnown[f.Obl] {
			fmt.Printf("note: listed finding no longer fails: %s\n", f.Obl)
		}
	}
	total := len(obls) - nCover - nKnown
	for _, o := range obls {
		if o.Cover && !o.ok() {
			// failed covers were counted as violations above; keep totals consistent
			total++
		}
	}
	if cfg.MinObls > 0 && len(obls) < cfg.MinObls && loadErr == nil && *only == "" {
		exit = 1
		rp := filepath.Join(outDir, "replay", "obligation-count.txt")
		os.WriteFile(rp, []byte(fmt.Sprintf("obligation %s/obligation-count: generated %d obligations, expected at least %d (a function, loop or contract disappeared)\n", prop, len(obls), cfg.MinObls)), 0o644)
		fmt.Printf("VIOLATION property=%s replay=%s no-failing-input-found\n", prop, rp)
		nViol++
	}
	wall := time.Since(t0).Seconds()
	// assumptions
	assume := map[string]bool{}
	for _, vc := range vcs {
		for _, s := range vc.assumed {
			assume[s] = true
			if strings.HasPrefix(s, "trusted contract: ") {
				trustedUsed[s[18:]] = true
			}
		}
	}
	var assumptions []string
	assumptions = append(assumptions, cfg.Assume...)
	assumptions = append(assumptions,
		"T1: go/types + go/ssa (NaiveForm) front end and gvc's SSA-to-SMT translation are trusted (exercised by the must-fail selftest corpus)",
		"T2: soundness of z3 4.8.12 / z3 5.1.0 / cvc5 1.0",
		"nil-dereference freedom is assumed (not checked) unless a contract sets 'option nilcheck on'",
		"integer arithmetic is modelled exactly (two's complement wrap) over mathematical Int; 'option nowrap on' turns overflow into an obligation",
		"append always yields a fresh backing array (in-place growth aliasing not modelled); goroutine spawns are no-ops for the spawner; termination is not proved",
	)
	for _, s := range sortedKeys(assume) {
		assumptions = append(assumptions, s)
	}
	tb := append([]string{"go/ssa front end", "gvc VC generator", "z3-new 5.1.0", "z3 4.8.12", "cvc5 1.0"}, cfg.Trusted...)
	for _, k := range sortedKeys(trustedUsed) {
		tb = append(tb, "prelude contract: "+k)
	}
	sort.Strings(fnsUnder)
	level := cfg.Level
	if level == "" {
		level = "proof"
	}
	cov := map[string]any{
		"obligations":              total,
		"discharged":               nDis,
		"checker_cmd":              fmt.Sprintf("/verif/check %s --tier %s  (gvc check: VCs from go/ssa of /repo's working tree; z3-new first, then z3 4.8.12 and cvc5 in parallel on unknown/timeout)", prop, *tier),
		"trusted_base":             tb,
		"samples":                  samples,
		"functions_under_contract": fnsUnder,
		"discharged_by_backend":    bySolver,
		"solver_time_s":            round3(solverSecs),
		"vacuity_covers_passed":    nCover,
		"known_finding_obligations": nKnown,
		"known_findings":           knownLines,
		"undischarged":             undecided,
		"bounded":                  cfg.Bounded,
		"not_covered":              cfg.NotCovered,
		"functions_checked_in_thorough_tier_only": thoroughOnly,
		"explanation":              "Each obligation is a closed SMT-LIB script (assumptions and negated goal) generated from the go/ssa form of the real function bodies in /repo plus the //@ contracts in zz_verif_contracts.go; 'discharged' counts scripts answered unsat. Obligations listed under known_findings fail on the unchanged tree because of a genuine defect recorded in /verif/known_findings.txt and are excluded from 'obligations'.",
	}
	ev := map[string]any{
		"property_id": prop,
		"tier":        *tier,
		"seed":        seed,
		"level":       level,
		"coverage":    cov,
		"assumptions": assumptions,
		"wall_s":      round3(wall),
		"violations":  nViol,
	}
	if !*noEvidence {
		os.MkdirAll(filepath.Join(verifDir, "evidence"), 0o755)
		eb, _ := json.MarshalIndent(ev, "", " ")
		os.WriteFile(filepath.Join(verifDir, "evidence", prop+".json"), append(eb, '\n'), 0o644)
	}
	fmt.Printf("%s: %d obligations, %d discharged, %d covers ok, %d known findings, %d violations, %.1fs (solver %.1fs)\n", prop, total, nDis, nCover, nKnown, nViol, wall, solverSecs)
	if *verbose {
		for _, vc := range vcs {
			for _, w := range vc.warns {
				fmt.Println("warn:", vc.fnName, w)
			}
		}
	}
	return exit
}

func hasProp(ps []string, p string) bool {
	for _, x := range ps {
		if x == p {
			return true
		}
	}
	return false
}

func trunc(s string, n int) string {
	if len(s) > n {
		return s[:n] + "…"
	}
	return s
}

func round3(f float64) float64 { return float64(int(f*1000+0.5)) / 1000 }

// writeReplay writes the replay file for a failed obligation and tries to reproduce it on the real code.
func writeReplay(e *Engine, o *Obl, path, repo string) bool {
	var b strings.Builder
	fmt.Fprintf(&b, "obligation: %s\nkind: %s\nfunction: %s\nat: %s\ngoal: %s\nresult: %s (solver %s, %.2fs)\nscript: %s\n", o.Name, o.Kind, o.Fn, o.Pos, o.Desc, o.Result, o.Solver, o.Secs, o.Script)
	reproduced := false
	if o.vc != nil && o.vc.fn != nil && o.Result != "sat" && o.Model == "" && hasScenarioTemplate(o) {
		ok, txt, _ := templateReplay(e, o, repo, filepath.Dir(path))
		b.WriteString(txt)
		reproduced = ok
	} else if (o.Result == "sat" || o.Model != "") && o.vc != nil {
		src := o.Out
		if o.Result != "sat" {
			src = o.Model
			b.WriteString("no solver verdict within the time limit; candidate counterexample found with quantified assumptions dropped (trusted only if the replay reproduces)\n")
		}
		model := parseModel(src)
		ok, txt := tryReplay(e, o, model, repo, filepath.Dir(path))
		b.WriteString(txt)
		reproduced = ok
	}
	b.WriteString("\n--- solver output ---\n")
	b.WriteString(trunc(o.Out, 20000))
	os.WriteFile(path, []byte(b.String()), 0o644)
	return reproduced
}

// hasScenarioTemplate reports whether the function has a replay template without model inputs.
func hasScenarioTemplate(o *Obl) bool {
	b, err := os.ReadFile(filepath.Join(verifDir, "replay", shortName(fnKey(o.vc.fn))+".tmpl"))
	return err == nil && !strings.Contains(string(b), "//@ get ")
}

// parseModel extracts (define-fun name () Sort value) entries.
func parseModel(out string) map[string]string {
	m := map[string]string{}
	lines := strings.Split(out, "\n")
	for i := 0; i < len(lines); i++ {
		l := strings.TrimSpace(lines[i])
		if !strings.HasPrefix(l, "(define-fun ") {
			continue
		}
		rest := l[len("(define-fun "):]
		sp := strings.Index(rest, " ")
		if sp < 0 {
			continue
		}
		name := rest[:sp]
		rest = strings.TrimSpace(rest[sp:])
		if !strings.HasPrefix(rest, "()") {
			continue
		}
		rest = strings.TrimSpace(rest[2:])
		// sort then value, value may be on the next line
		var val string
		if k := strings.Index(rest, " "); k >= 0 && !strings.HasPrefix(rest, "(") {
			val = strings.TrimSpace(rest[k:])
		}
		if val == "" && i+1 < len(lines) {
			val = strings.TrimSpace(lines[i+1])
		}
		val = strings.TrimSuffix(val, ")")
		val = strings.TrimSpace(val)
		if strings.HasPrefix(val, "(- ") {
			val = "-" + strings.TrimSuffix(val[3:], ")")
		}
		m[name] = val
	}
	return m
}
