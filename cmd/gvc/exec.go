package main

import (
	"fmt"
	"go/constant"
	"go/token"
	"go/types"
	"regexp"
	"sort"
	"strconv"
	"strings"

	"golang.org/x/tools/go/ssa"
)

type FnVal struct {
	Fn       *ssa.Function
	Bindings []Val
	Origin   string // contract key for function-typed struct fields / params
}

// Act is one activation (the verified function or an inlined callee).
type Act struct {
	siteN int // site assertions emitted so far (obligation numbering)
	didClose bool // the function (or an inlined callee) executes a close(): only then is G:chanclosed frame-checked
	eng      *Engine
	vc       *VC
	fn       *ssa.Function
	con      *Contract
	regs     map[ssa.Value]Val
	cells    map[*ssa.Alloc]*Cell
	entry    *State
	params   map[string]Val
	paramOrd []string
	depth    int
	prefix   string // obligation name prefix: <pkg>.<Fn>
	props    []string
	loopOrd  map[*ssa.BasicBlock]int
	loopBody map[*ssa.BasicBlock]map[*ssa.BasicBlock]bool
	rpo      []*ssa.BasicBlock
	rpoIdx   map[*ssa.BasicBlock]int
	counts   map[string]int
	inlined  bool
	rets     []retRec
	writeLog *writeLog
	written  map[string]bool
	iters    map[*ssa.Range]*iterInfo
	nextOf   map[ssa.Value]*iterInfo
	curBlock *ssa.BasicBlock
	top      *Act // outermost activation (for naming)
	parent   *Act
	returns  []*ssa.Return
	sends    *[]string
	loopWrites map[*ssa.BasicBlock]*writeLog
	frameMemo  *frameInfo
	loopHead   map[*ssa.BasicBlock]*State
	locks      []string // mutex addresses acquired by this function
	ifaceCon   *Contract // interface contract this method implements (its ensures are obligations too)
	ifaceParams map[string]Val
	curCall    *ssa.CallCommon
	callPos  token.Pos
}

type retRec struct {
	st   *State
	vals []Val
}

type writeLog struct {
	heaps map[string]bool     // keys written
	full  map[string]bool     // keys written at unknown / loop-varying addresses
	addrs map[string][]string // keys written only at these (candidate loop-invariant) addresses
	cells map[*Cell]bool
	paths map[*Cell][][]int // field paths written inside struct-valued cells (nil entry = whole cell)
	whole map[*Cell]bool
	all   bool
	// when all: were ghost heaps included in every... in some whole-heap havoc, and which struct types were kept by all of them
	allGhosts bool
	allExcept []string
	startN int
}

// noteAll records a whole-heap havoc (ghosts: ghost heaps included; except: struct types whose fields were kept).
func (wl *writeLog) noteAll(ghosts bool, except []string) {
	if !wl.all {
		wl.all, wl.allGhosts, wl.allExcept = true, ghosts, append([]string(nil), except...)
		return
	}
	wl.allGhosts = wl.allGhosts || ghosts
	var keep []string
	for _, x := range wl.allExcept {
		for _, y := range except {
			if x == y {
				keep = append(keep, x)
			}
		}
	}
	wl.allExcept = keep
}

func (wl *writeLog) noteCell(c *Cell, path []int) {
	wl.cells[c] = true
	if wl.paths == nil {
		wl.paths = map[*Cell][][]int{}
		wl.whole = map[*Cell]bool{}
	}
	if len(path) == 0 {
		wl.whole[c] = true
		return
	}
	for _, p := range wl.paths[c] {
		if fmt.Sprint(p) == fmt.Sprint(path) {
			return
		}
	}
	wl.paths[c] = append(wl.paths[c], append([]int(nil), path...))
}

func newWriteLog(n int) *writeLog {
	return &writeLog{heaps: map[string]bool{}, full: map[string]bool{}, addrs: map[string][]string{}, cells: map[*Cell]bool{}, startN: n}
}

var symNumRe = regexp.MustCompile(`!([0-9]+)`)

// invariantTerm reports whether every generated symbol in the term was created before the loop discovery started.
func (wl *writeLog) invariantTerm(t string) bool {
	for _, m := range symNumRe.FindAllStringSubmatch(t, -1) {
		n, _ := strconv.Atoi(m[1])
		if n > wl.startN {
			return false
		}
	}
	return !boundVarRe.MatchString(t)
}

func (wl *writeLog) note(key, addr string) {
	wl.heaps[key] = true
	if addr == "" || !wl.invariantTerm(addr) {
		wl.full[key] = true
		return
	}
	for _, a := range wl.addrs[key] {
		if a == addr {
			return
		}
	}
	wl.addrs[key] = append(wl.addrs[key], addr)
}

func (wl *writeLog) mergeInto(dst *writeLog) {
	for k := range wl.heaps {
		dst.heaps[k] = true
	}
	for k := range wl.full {
		dst.full[k] = true
	}
	for k, as := range wl.addrs {
		for _, a := range as {
			dst.note(k, a)
		}
	}
	for k := range wl.cells {
		dst.cells[k] = true
		if wl.whole[k] || len(wl.paths[k]) == 0 {
			dst.noteCell(k, nil)
		}
		for _, p := range wl.paths[k] {
			dst.noteCell(k, p)
		}
	}
	if wl.all {
		dst.noteAll(wl.allGhosts, wl.allExcept)
	}
}

type iterInfo struct {
	rng     *ssa.Range
	mapVal  Val
	visited string // heap-like key in state
	keySort string
	valSort string
	kt, vt  types.Type
	isStr   bool
}

type edgeIn struct {
	pred *ssa.BasicBlock
	st   *State
}

func (a *Act) oblName(kind string) string {
	t := a.top
	if t == nil {
		t = a
	}
	t.counts[kind]++
	n := fmt.Sprintf("%s/%s#%d", t.prefix, kind, t.counts[kind])
	return n
}

func (a *Act) pos(p token.Pos) string {
	if !p.IsValid() && a.callPos.IsValid() {
		p = a.callPos
	}
	return posStr(a.eng.fset, p)
}

// ---- CFG analysis ----

func (a *Act) analyzeCFG() {
	fn := a.fn
	a.rpoIdx = map[*ssa.BasicBlock]int{}
	seen := map[*ssa.BasicBlock]bool{}
	var post []*ssa.BasicBlock
	var dfs func(b *ssa.BasicBlock)
	dfs = func(b *ssa.BasicBlock) {
		seen[b] = true
		for _, s := range b.Succs {
			if !seen[s] {
				dfs(s)
			}
		}
		post = append(post, b)
	}
	if len(fn.Blocks) == 0 {
		return
	}
	dfs(fn.Blocks[0])
	for i := len(post) - 1; i >= 0; i-- {
		a.rpoIdx[post[i]] = len(a.rpo)
		a.rpo = append(a.rpo, post[i])
	}
	// loop headers: targets of back edges (succ dominates pred)
	a.loopBody = map[*ssa.BasicBlock]map[*ssa.BasicBlock]bool{}
	for _, b := range a.rpo {
		for _, s := range b.Succs {
			if s.Dominates(b) {
				body := a.loopBody[s]
				if body == nil {
					body = map[*ssa.BasicBlock]bool{s: true}
					a.loopBody[s] = body
				}
				// natural loop: nodes reaching b without passing s
				var stack []*ssa.BasicBlock
				if !body[b] {
					body[b] = true
					stack = append(stack, b)
				}
				for len(stack) > 0 {
					x := stack[len(stack)-1]
					stack = stack[:len(stack)-1]
					for _, p := range x.Preds {
						if !body[p] {
							body[p] = true
							stack = append(stack, p)
						}
					}
				}
			} else if a.rpoIdx[s] <= a.rpoIdx[b] {
				a.vc.unsupported("irreducible control flow in %s", fn.Name())
			}
		}
	}
	// loop ordinals in source order
	var heads []*ssa.BasicBlock
	for h := range a.loopBody {
		heads = append(heads, h)
	}
	sort.Slice(heads, func(i, j int) bool {
		pi, pj := loopPos(heads[i]), loopPos(heads[j])
		if pi != pj {
			return pi < pj
		}
		return heads[i].Index < heads[j].Index
	})
	a.loopOrd = map[*ssa.BasicBlock]int{}
	for i, h := range heads {
		a.loopOrd[h] = i + 1
	}
}

// loopPos approximates the source position of a loop by the smallest position in its header/body.
func loopPos(h *ssa.BasicBlock) token.Pos {
	best := token.Pos(1 << 40)
	// use the loop header and its predecessors outside the loop: position of first instruction with a pos
	for _, in := range h.Instrs {
		if p := in.Pos(); p.IsValid() && p < best {
			best = p
		}
	}
	for _, s := range h.Succs {
		for _, in := range s.Instrs {
			if p := in.Pos(); p.IsValid() && p < best {
				best = p
			}
		}
	}
	return best
}

// ---- running blocks ----

// runBlocks executes the given blocks (in RPO) starting with start state at startBlock.
// only: restricts to a block set (nil = all). skipHeader: loop header whose invariant handling is suppressed (discovery).
func (a *Act) runBlocks(startBlock *ssa.BasicBlock, start *State, only map[*ssa.BasicBlock]bool, skipHeader *ssa.BasicBlock) {
	incoming := map[*ssa.BasicBlock][]edgeIn{}
	incoming[startBlock] = []edgeIn{{nil, start}}
	for _, b := range a.rpo {
		if only != nil && !only[b] {
			continue
		}
		ins := incoming[b]
		if len(ins) == 0 {
			continue
		}
		var sts []*State
		for _, e := range ins {
			sts = append(sts, e.st)
		}
		st := a.vc.mergeStates(sts)
		a.curBlock = b
		isHeader := a.loopBody[b] != nil && b != skipHeader
		if isHeader {
			a.enterLoop(b, st, ins)
		} else {
			a.doPhis(b, st, ins, false)
		}
		// instructions
		dead := false
		for _, in := range b.Instrs {
			if _, ok := in.(*ssa.Phi); ok {
				continue
			}
			if a.execInstr(st, in, b, incoming, only) {
				dead = true
				break
			}
			// every SSA register is a named constant: keeps terms small and E-matching effective
			if v, ok := in.(ssa.Value); ok {
				if r, ok := a.regs[v]; ok && r.S != "" && r.Tup == nil && !isAtom(r.S) && r.Sort != "Tuple" && r.Sort != "" {
					r.S = a.vc.define("t", r.Sort, r.S)
					a.regs[v] = r
				}
			}
		}
		_ = dead
	}
}

func (a *Act) doPhis(b *ssa.BasicBlock, st *State, ins []edgeIn, havoc bool) {
	for _, in := range b.Instrs {
		phi, ok := in.(*ssa.Phi)
		if !ok {
			continue
		}
		srt := a.vc.g.sortOf(phi.Type())
		v := a.vc.fresh("phi_"+phi.Name(), srt)
		a.vc.assume("true", a.vc.g.rangeFact(phi.Type(), v))
		if !havoc {
			for _, e := range ins {
				if e.pred == nil {
					continue
				}
				for i, p := range b.Preds {
					if p == e.pred {
						ev := a.val(e.st, phi.Edges[i])
						a.vc.assume(e.st.guard, eq(v, a.force(e.st, ev).S))
					}
				}
			}
		}
		a.regs[phi] = Val{S: v, Sort: srt, T: phi.Type()}
	}
}

func (a *Act) loopInvs(h *ssa.BasicBlock) []*Clause {
	var out []*Clause
	n := a.loopOrd[h]
	if a.inlined {
		// invariants the verified function's contract supplies for loops of this inlined callee ("loop callee.N invariant")
		if a.top != nil && a.top.con != nil {
			for _, c := range a.top.con.Invs {
				if c.LoopFn != "" && c.LoopFn == a.fn.Name() && c.Loop == n {
					out = append(out, c)
				}
			}
		}
		return out
	}
	if a.con == nil {
		return nil
	}
	for _, c := range a.con.Invs {
		if c.Loop == n && c.LoopFn == "" {
			out = append(out, c)
		}
	}
	return out
}

// clauseEnv returns the environment for a clause: interface-contract clauses see the interface's parameter names.
func (a *Act) clauseEnv(env *SpecEnv, c *Clause) *SpecEnv {
	if a.ifaceCon == nil || a.ifaceParams == nil {
		return env
	}
	isIface := false
	for _, lst := range [][]*Clause{a.ifaceCon.Requires, a.ifaceCon.Ensures, a.ifaceCon.Modifies} {
		for _, x := range lst {
			if x == c {
				isIface = true
			}
		}
	}
	if !isIface {
		return env
	}
	n := *env
	n.vars = make(map[string]Val, len(env.vars)+len(a.ifaceParams))
	for k, v := range env.vars {
		n.vars[k] = v
	}
	for k, v := range a.ifaceParams {
		n.vars[k] = v
	}
	return &n
}

// autoInvs are invariants the engine supplies itself: range indices stay >= -1, and the function's frame
// condition (locations that existed at entry and are not named in modifies keep their entry value).
func (a *Act) autoInvs(h *ssa.BasicBlock, st *State) [][2]string {
	var out [][2]string
	// range index cells written in this loop
	wl := a.loopWrites[h]
	if wl == nil {
		return nil
	}
	var cs []*Cell
	for c := range wl.cells {
		cs = append(cs, c)
	}
	sort.Slice(cs, func(i, j int) bool { return cs[i].ID < cs[j].ID })
	for _, c := range cs {
		if c.Name == "rangeindex" {
			if v, ok := st.cells[c]; ok {
				out = append(out, [2]string{"rangeindex", "(and (>= " + v.S + " (- 1)) (< " + v.S + " 9223372036854775807))"})
			}
		}
	}
	top := a
	if a.top != nil {
		top = a.top
	}
	if top.con == nil || top.con.Trusted || top.con.Opts["frame"] == "off" || top.entry == nil {
		return out
	}
	allowed, anyKey, whole := top.frameAllowed()
	if whole {
		return out
	}
	for _, k := range sortedKeys(wl.heaps) {
		if !top.frameMemo.framed(k) {
			continue
		}
		if strings.HasPrefix(k, "IT:") || k == "G:chancap" || k == "G:chanclosed" || k == "G:held" || k == "G:lockuses" || k == "G:nsent" || anyKey[k] || top.modelFieldKey(k) {
			continue
		}
		srt := a.vc.heapSorts[k]
		h0 := a.vc.getHeap(top.entry, k, srt)
		h1 := a.vc.getHeap(st, k, srt)
		if h0 == h1 {
			continue
		}
		conds := []string{"(<= (base x) " + top.entry.top + ")"}
		for _, ad := range allowed[k] {
			conds = append(conds, not(eq("x", ad)))
		}
		out = append(out, [2]string{"frame " + k, fmt.Sprintf("(forall ((x Int)) (! (=> %s (= (select %s x) (select %s x))) :pattern ((select %s x))))", and(conds...), h1, h0, h1)})
	}
	return out
}

// assertHints proves the loop's hints in the back-edge state (they are then available to the invariant proofs).
func (a *Act) assertHints(h *ssa.BasicBlock, st *State) {
	if a.con == nil || a.inlined {
		return
	}
	n := a.loopOrd[h]
	for i, c := range a.con.Hints {
		if c.Loop != n {
			continue
		}
		env := a.specEnv(st)
		env.loop = h
		env.pre = a.loopHead[h]
		v, err := env.evalBool(c.Expr)
		name := fmt.Sprintf("%s/hint loop#%d.%d", a.prefix, n, i+1)
		if c.Label != "" {
			name = fmt.Sprintf("%s/hint loop#%d.%s", a.prefix, n, c.Label)
		}
		if err != nil {
			a.vc.oblige(name, "hint", a.props, c.Line, st.guard, "false", "contract error: "+err.Error()+" in: "+c.Text)
			continue
		}
		a.vc.oblige(name, "hint", a.props, c.Line, st.guard, v, c.Text)
	}
}

func (a *Act) assertInvs(h *ssa.BasicBlock, st *State, kind string) {
	for _, ai := range a.autoInvs(h, st) {
		lp0 := fmt.Sprintf("loop#%d", a.loopOrd[h])
		if a.inlined {
			lp0 = a.fn.Name() + "." + lp0
		}
		name := fmt.Sprintf("%s/%s %s.auto-%s", a.prefix, kind, lp0, ai[0])
		a.vc.oblige(name, kind, a.props, a.pos(h.Instrs[0].Pos()), st.guard, ai[1], "engine-supplied invariant: "+ai[0])
	}
	for i, c := range a.loopInvs(h) {
		env := a.specEnv(st)
		env.loop = h
		v, err := env.evalBool(c.Expr)
		lp := fmt.Sprintf("loop#%d", a.loopOrd[h])
		if a.inlined {
			lp = a.fn.Name() + "." + lp
		}
		name := fmt.Sprintf("%s/%s %s.%d", a.prefix, kind, lp, i+1)
		if c.Label != "" {
			name = fmt.Sprintf("%s/%s %s.%s", a.prefix, kind, lp, c.Label)
		}
		if err != nil {
			a.vc.oblige(name, kind, a.props, c.Line, st.guard, "false", "contract error: "+err.Error()+" in: "+c.Text)
			continue
		}
		n0 := len(a.vc.obls)
		a.vc.oblige(name, kind, a.props, c.Line, st.guard, v, c.Text)
		if len(a.vc.obls) > n0 && len(c.Props) > 0 {
			a.vc.obls[len(a.vc.obls)-1].OnlyProps = c.Props
		}
	}
}

func (a *Act) enterLoop(h *ssa.BasicBlock, st *State, ins []edgeIn) {
	vc := a.vc
	// 1. discover written set
	wl := newWriteLog(vc.n)
	{
		saved := a.writeLog
		a.writeLog = wl
		nAsserts, nDecls := len(vc.asserts), len(vc.decls)
		vc.quiet++
		scratch := st.clone()
		scratch.guard = vc.fresh("gdisc", sBool)
		savedRegs := a.regs
		a.regs = make(map[ssa.Value]Val, len(savedRegs))
		for k, v := range savedRegs {
			a.regs[k] = v
		}
		a.doPhis(h, scratch, nil, true)
		a.runBlocks(h, scratch, a.loopBody[h], h)
		a.regs = savedRegs
		vc.quiet--
		// drop everything the discovery pass emitted: it only served to find the written set
		vc.asserts = vc.asserts[:nAsserts]
		vc.decls = vc.decls[:nDecls]
		a.writeLog = saved
		if saved != nil {
			wl.mergeInto(saved)
		}
	}
	if a.loopWrites == nil {
		a.loopWrites = map[*ssa.BasicBlock]*writeLog{}
	}
	for c := range wl.cells {
		if _, ok := st.cells[c]; !ok {
			delete(wl.cells, c) // declared inside the loop body
		}
	}
	a.loopWrites[h] = wl
	// 2. invariant holds on entry
	if a.vc.quiet == 0 {
		a.assertInvs(h, st, "inv-entry")
	}
	// 3. havoc written state
	var cs []*Cell
	for c := range wl.cells {
		cs = append(cs, c)
	}
	sort.Slice(cs, func(i, j int) bool { return cs[i].ID < cs[j].ID })
	for _, c := range cs {
		old, ok := st.cells[c]
		if !ok {
			continue // declared inside the loop
		}
		srt := old.Sort
		if !wl.whole[c] && len(wl.paths[c]) > 0 && len(wl.paths[c]) <= 8 && old.S != "" {
			// only some fields of the struct-valued variable are written in the loop
			cur := old
			for _, p := range wl.paths[c] {
				ft := a.getPath(cur, p)
				fv := a.freshVal("lv_"+c.Name, ft.T)
				cur = a.setPath(cur, p, fv)
				cur.S = vc.define("lv_"+c.Name, cur.Sort, cur.S)
			}
			st.cells[c] = cur
			continue
		}
		nv := vc.fresh("lv_"+c.Name, srt)
		vc.assume("true", vc.g.rangeFact(c.T, nv))
		st.cells[c] = Val{S: nv, Sort: srt, T: c.T}
	}
	if wl.all {
		// whole-heap havocs in the body: what every one of them keeps (ghosts, excepted struct types) survives the loop
		// unless it is also written explicitly (handled below)
		saved := a.writeLog
		a.writeLog = nil
		a.havocHeaps(st, wl.allGhosts, wl.allExcept)
		a.writeLog = saved
		if saved != nil {
			saved.noteAll(wl.allGhosts, wl.allExcept)
		}
	}
	{
		for _, k := range sortedKeys(wl.heaps) {
			if wl.all && !(keptKey(k, wl.allExcept) || (!wl.allGhosts && strings.HasPrefix(k, "G:"))) {
				continue // already havocked as a whole
			}
			srt := a.vc.heapSorts[k]
			if !wl.full[k] && len(wl.addrs[k]) > 0 && len(wl.addrs[k]) <= 6 && !strings.HasPrefix(k, "IT:") {
				// written only at loop-invariant addresses: havoc just those locations
				_, es := splitArraySort(srt)
				h := vc.getHeap(st, k, srt)
				for _, ad := range wl.addrs[k] {
					h = store(h, ad, vc.fresh("hv_"+k, es))
				}
				st.heap[k] = vc.define("Hl_"+k, srt, h)
				continue
			}
			st.heap[k] = vc.fresh("Hl_"+k, srt)
		}
	}
	ntop := vc.fresh("top", sInt)
	vc.assume("true", "(>= "+ntop+" "+st.top+")")
	st.top = ntop
	a.doPhis(h, st, ins, true)
	if a.loopHead == nil {
		a.loopHead = map[*ssa.BasicBlock]*State{}
	}
	a.loopHead[h] = st.clone()
	// 4. assume invariant
	for _, ai := range a.autoInvs(h, st) {
		vc.assume(st.guard, ai[1])
	}
	for _, c := range a.loopInvs(h) {
		env := a.specEnv(st)
		env.loop = h
		v, err := env.evalBool(c.Expr)
		if err == nil {
			vc.assume(st.guard, v)
		}
	}
}

func (a *Act) havocAllHeaps(st *State) { a.havocHeaps(st, true, nil) }

// havocMemory: "modifies memory [except T...]": ghost heaps and the fields of the excepted struct types are kept.
func (a *Act) havocMemory(st *State, except []string) { a.havocHeaps(st, false, except) }

func (a *Act) havocHeaps(st *State, ghosts bool, except []string) {
	for _, k := range sortedKeys(a.vc.heapSorts) {
		if strings.HasPrefix(k, "IT:") {
			continue
		}
		if keptKey(k, except) || (!ghosts && strings.HasPrefix(k, "G:")) {
			continue
		}
		st.heap[k] = a.vc.fresh("Hh_"+k, a.vc.heapSorts[k])
		if a.top != nil && a.top.written != nil {
			a.top.written[k] = true
		} else if a.written != nil {
			a.written[k] = true
		}
	}
	a.vc.gens++
	st.pushHavoc(havocEv{gen: a.vc.gens, all: ghosts, except: except})
	if a.writeLog != nil {
		a.writeLog.noteAll(ghosts, except)
	}
	a.vc.havocAll = true
}

// ---- values ----

func (a *Act) zero(t types.Type) Val {
	g := a.vc.g
	srt := g.sortOf(t)
	mk := func(s string) Val { return Val{S: s, Sort: srt, T: t} }
	if tp, ok := isTypeParam(t); ok {
		n := "zero_" + srt
		g.decl("const "+n, fmt.Sprintf("(declare-const %s %s)", n, srt))
		_ = tp
		return mk(n)
	}
	switch u := t.Underlying().(type) {
	case *types.Basic:
		switch srt {
		case sBool:
			return mk("false")
		case sStr:
			return mk(g.strLit(""))
		case sReal:
			return mk("0.0")
		}
		return mk("0")
	case *types.Slice:
		return mk("(mk_Slice 0 0 0 0)")
	case *types.Interface:
		return mk("(mk_Iface 0 0)")
	case *types.Struct:
		si := g.structInfoOf(t)
		var fs []string
		for _, f := range si.Fields {
			fs = append(fs, a.zero(f.T).S)
		}
		return mk(app("mk_"+si.Sort, fs...))
	case *types.Array:
		return mk(fmt.Sprintf("((as const %s) %s)", srt, a.zero(u.Elem()).S))
	}
	return mk("0")
}

func (a *Act) freshVal(prefix string, t types.Type) Val {
	srt := a.vc.g.sortOf(t)
	if tup, ok := t.(*types.Tuple); ok {
		var vs []Val
		for i := 0; i < tup.Len(); i++ {
			vs = append(vs, a.freshVal(fmt.Sprintf("%s_%d", prefix, i), tup.At(i).Type()))
		}
		return Val{Tup: vs, T: t, Sort: "Tuple"}
	}
	n := a.vc.fresh(prefix, srt)
	a.vc.assume("true", a.vc.g.rangeFact(t, n))
	return Val{S: n, Sort: srt, T: t}
}

func (a *Act) constVal(c *ssa.Const) Val {
	t := c.Type()
	g := a.vc.g
	if c.Value == nil {
		return a.zero(t)
	}
	srt := g.sortOf(t)
	switch c.Value.Kind() {
	case constant.Bool:
		if constant.BoolVal(c.Value) {
			return Val{S: "true", Sort: sBool, T: t}
		}
		return Val{S: "false", Sort: sBool, T: t}
	case constant.String:
		return Val{S: g.strLit(constant.StringVal(c.Value)), Sort: sStr, T: t}
	case constant.Int:
		s := c.Value.ExactString()
		if strings.HasPrefix(s, "-") {
			s = "(- " + s[1:] + ")"
		}
		if srt == sReal {
			s += ".0"
		}
		return Val{S: s, Sort: srt, T: t}
	case constant.Float:
		return Val{S: a.vc.fresh("fconst", sReal), Sort: sReal, T: t}
	}
	return a.freshVal("const", t)
}

func (a *Act) val(st *State, v ssa.Value) Val {
	switch x := v.(type) {
	case *ssa.Const:
		return a.constVal(x)
	case *ssa.Function:
		return Val{S: a.fnAddr(x), Sort: sInt, T: x.Type(), Fn: &FnVal{Fn: x}}
	case *ssa.Global:
		n := "glob_" + sanitize(x.Pkg.Pkg.Name()+"_"+x.Name())
		a.vc.g.decl("const "+n, fmt.Sprintf("(declare-const %s Int)", n))
		return Val{S: n, Sort: sInt, T: x.Type()}
	case *ssa.Builtin:
		return Val{S: "0", Sort: sInt, T: x.Type()}
	}
	if r, ok := a.regs[v]; ok {
		return r
	}
	a.vc.warn("use of undefined value %s (%T) in %s", v.Name(), v, a.fn.Name())
	nv := a.freshVal("undef_"+v.Name(), v.Type())
	a.regs[v] = nv
	return nv
}

func (a *Act) fnAddr(f *ssa.Function) string {
	n := "fn_" + sanitize(f.String())
	if len(n) > 80 {
		n = n[:80]
	}
	a.vc.g.decl("const "+n, fmt.Sprintf("(declare-const %s Int)", n))
	return n
}

// force materializes lazily-represented values (none currently in executor; placeholder for spec laziness).
func (a *Act) force(st *State, v Val) Val { return v }

// ---- memory ----

func deref(t types.Type) types.Type {
	if p, ok := t.Underlying().(*types.Pointer); ok {
		return p.Elem()
	}
	return t
}

func (a *Act) logHeap(key string) { a.logHeapAt(key, "") }

// logHeapAt records a write to heap key at the given address ("" = unknown / many addresses).
func (a *Act) logHeapAt(key, addr string) {
	if a.writeLog != nil {
		a.writeLog.note(key, addr)
	}
	if a.top != nil && a.top.written != nil {
		a.top.written[key] = true
	} else if a.written != nil {
		a.written[key] = true
	}
}

// loadAt loads a value of type t stored at address addr.
func (a *Act) loadAt(st *State, addr string, t types.Type) Val {
	g := a.vc.g
	if si := g.structInfoOf(t); si != nil {
		if _, isTP := isTypeParam(t); !isTP {
			var fs []string
			for i, f := range si.Fields {
				if g.structInfoOf(f.T) != nil {
					fs = append(fs, a.loadAt(st, app(g.fldFn(si, i), addr), f.T).S)
				} else {
					k, srt := g.fieldHeapKey(si, i)
					fs = append(fs, sel(a.vc.getHeap(st, k, srt), addr))
				}
			}
			return Val{S: app("mk_"+si.Sort, fs...), Sort: si.Sort, T: t}
		}
	}
	srt := g.sortOf(t)
	k, hs := memKey(srt)
	return Val{S: sel(a.vc.getHeap(st, k, hs), addr), Sort: srt, T: t}
}

func (a *Act) storeAt(st *State, addr string, t types.Type, v Val) {
	g := a.vc.g
	if si := g.structInfoOf(t); si != nil {
		if _, isTP := isTypeParam(t); !isTP {
			sv := a.vc.define("sv", si.Sort, v.S)
			for i, f := range si.Fields {
				fv := Val{S: app(f.Sel, sv), Sort: f.Sort, T: f.T}
				if g.structInfoOf(f.T) != nil {
					a.storeAt(st, app(g.fldFn(si, i), addr), f.T, fv)
				} else {
					k, srt := g.fieldHeapKey(si, i)
					a.vc.setHeap(st, k, srt, store(a.vc.getHeap(st, k, srt), addr, fv.S))
					a.logHeapAt(k, addr)
				}
			}
			return
		}
	}
	srt := g.sortOf(t)
	k, hs := memKey(srt)
	a.vc.setHeap(st, k, hs, store(a.vc.getHeap(st, k, hs), addr, v.S))
	a.logHeapAt(k, addr)
}

// loadField / storeField access field i of the struct (type st) at address base.
func (a *Act) loadField(s *State, base string, t types.Type, i int) Val {
	g := a.vc.g
	si := g.structInfoOf(t)
	f := si.Fields[i]
	if g.structInfoOf(f.T) != nil {
		return a.loadAt(s, app(g.fldFn(si, i), base), f.T)
	}
	k, srt := g.fieldHeapKey(si, i)
	v := Val{S: sel(a.vc.getHeap(s, k, srt), base), Sort: f.Sort, T: f.T}
	if _, ok := f.T.Underlying().(*types.Signature); ok {
		v.Fn = &FnVal{Origin: a.fieldKey(t, f.Name)}
	}
	if len(a.eng.guarded) > 0 {
		v.Guard = a.guardOf(t, f.Name, base)
	}
	return v
}

func (a *Act) fieldKey(t types.Type, field string) string {
	if n, ok := types.Unalias(t).(*types.Named); ok && n.Obj().Pkg() != nil {
		return n.Obj().Pkg().Path() + "." + n.Obj().Name() + "." + field
	}
	return "?." + field
}

func (a *Act) storeField(s *State, base string, t types.Type, i int, v Val) {
	g := a.vc.g
	si := g.structInfoOf(t)
	f := si.Fields[i]
	if g.structInfoOf(f.T) != nil {
		a.storeAt(s, app(g.fldFn(si, i), base), f.T, v)
		return
	}
	k, srt := g.fieldHeapKey(si, i)
	a.vc.setHeap(s, k, srt, store(a.vc.getHeap(s, k, srt), base, v.S))
	a.logHeapAt(k, base)
}

// getPath / setPath navigate nested struct values held in local cells.
func (a *Act) getPath(v Val, path []int) Val {
	g := a.vc.g
	for _, i := range path {
		si := g.structInfoOf(v.T)
		f := si.Fields[i]
		v = Val{S: app(f.Sel, v.S), Sort: f.Sort, T: f.T}
	}
	return v
}

func (a *Act) setPath(v Val, path []int, nv Val) Val {
	if len(path) == 0 {
		return Val{S: nv.S, Sort: v.Sort, T: v.T, Fn: nv.Fn}
	}
	g := a.vc.g
	si := g.structInfoOf(v.T)
	base := a.vc.define("lv", v.Sort, v.S)
	var fs []string
	for i, f := range si.Fields {
		if i == path[0] {
			inner := a.setPath(Val{S: app(f.Sel, base), Sort: f.Sort, T: f.T}, path[1:], nv)
			fs = append(fs, inner.S)
		} else {
			fs = append(fs, app(f.Sel, base))
		}
	}
	return Val{S: app("mk_"+si.Sort, fs...), Sort: v.Sort, T: v.T}
}

func (a *Act) load(st *State, p Val, pos token.Pos) Val {
	et := deref(p.T)
	if p.P != nil {
		switch p.P.Kind {
		case ptrLocal:
			cv, ok := st.cells[p.P.Local]
			if !ok {
				cv = a.zero(p.P.Local.T)
			}
			return a.getPath(cv, p.P.Path)
		case ptrField:
			v := a.loadField(st, p.P.Base, p.P.ST, p.P.Field)
			a.checkGuard(st, v.Guard, false, "guarded field", pos)
			return v
		}
	}
	a.nilCheck(st, p, pos)
	return a.loadAt(st, p.S, et)
}

// chanTypeFact: a non-nil channel value has the element type of its static type (channels of different element types
// are different channels). chanty is an uninterpreted function from channel addresses to element-type numbers.
func (a *Act) chanTypeFact(st *State, v Val) {
	if v.T == nil || v.S == "" || v.Sort != sInt {
		return
	}
	ct, ok := v.T.Underlying().(*types.Chan)
	if !ok {
		return
	}
	a.vc.g.decl("fun chanty", "(declare-fun chanty (Int) Int)")
	id := a.eng.chanID("elemtype:" + ct.Elem().String())
	a.vc.assume(st.guard, fmt.Sprintf("(=> (not (= %s 0)) (= (chanty %s) %s))", v.S, v.S, id))
}

// refFacts adds heap well-formedness facts for loaded references.
func (a *Act) refFacts(st *State, v Val) {
	if v.T == nil || v.S == "" {
		return
	}
	if _, isTP := isTypeParam(v.T); isTP {
		return
	}
	a.vc.assume("true", a.vc.g.rangeFact(v.T, v.S))
	switch v.T.Underlying().(type) {
	case *types.Pointer, *types.Map, *types.Chan:
		a.vc.assume(st.guard, fmt.Sprintf("(<= (base %s) %s)", v.S, st.top))
		a.chanTypeFact(st, v)
	case *types.Slice:
		a.vc.assume(st.guard, fmt.Sprintf("(<= (base (sl_arr %s)) %s)", v.S, st.top))
	case *types.Interface:
		a.vc.assume(st.guard, fmt.Sprintf("(<= (base (ival %s)) %s)", v.S, st.top))
	}
}

func (a *Act) nilCheck(st *State, p Val, pos token.Pos) {
	if p.S == "" || p.Sort != sInt {
		return
	}
	if a.optOn("nilcheck") {
		a.vc.oblige(a.oblName("nopanic-nil"), "nopanic", a.props, a.pos(pos), st.guard, not(eq(p.S, "0")), "nil dereference")
	} else {
		a.vc.assume(st.guard, not(eq(p.S, "0")))
	}
}

func (a *Act) optOn(k string) bool {
	t := a
	if a.top != nil {
		t = a.top
	}
	if t.con != nil {
		if v, ok := t.con.Opts[k]; ok {
			return v == "on" || v == "true" || v == ""
		}
	}
	return false
}

func (a *Act) storeTo(st *State, p Val, v Val, pos token.Pos) {
	et := deref(p.T)
	if p.P != nil {
		switch p.P.Kind {
		case ptrLocal:
			c := p.P.Local
			cur, ok := st.cells[c]
			if !ok {
				cur = a.zero(c.T)
			}
			nv := a.setPath(cur, p.P.Path, v)
			if len(p.P.Path) == 0 {
				nv = v
				nv.T = c.T
				if nv.Sort == "" {
					nv.Sort = a.vc.g.sortOf(c.T)
				}
			} else {
				nv.S = a.vc.define("lv_"+c.Name, nv.Sort, nv.S)
			}
			st.cells[c] = nv
			if a.writeLog != nil {
				a.writeLog.noteCell(c, p.P.Path)
			}
			return
		case ptrField:
			if len(a.eng.guarded) > 0 {
				si := a.vc.g.structInfoOf(p.P.ST)
				a.checkGuard(st, a.guardOf(p.P.ST, si.Fields[p.P.Field].Name, p.P.Base), true, "guarded field", pos)
			}
			a.storeField(st, p.P.Base, p.P.ST, p.P.Field, v)
			return
		}
	}
	a.nilCheck(st, p, pos)
	a.storeAt(st, p.S, et, v)
}

// alloc returns a fresh address.
func (a *Act) alloc(st *State, hint string) string {
	n := a.vc.fresh("new_"+hint, sInt)
	a.vc.assume("true", fmt.Sprintf("(and (> %s %s) (> %s 0) (= (tag %s) 0) (= (base %s) %s))", n, st.top, n, n, n, n))
	st.top = n
	return n
}
