package main

import (
	"fmt"
	"go/token"
	"go/types"
	"strings"

	"golang.org/x/tools/go/ssa"
)

// execInstr executes one instruction; returns true if the block ended.
func (a *Act) execInstr(st *State, in ssa.Instruction, b *ssa.BasicBlock, incoming map[*ssa.BasicBlock][]edgeIn, only map[*ssa.BasicBlock]bool) bool {
	vc := a.vc
	g := vc.g
	switch x := in.(type) {
	case *ssa.DebugRef:
		return false
	case *ssa.Alloc:
		et := deref(x.Type())
		if !x.Heap {
			c := a.cells[x]
			if c == nil {
				c = &Cell{Name: x.Comment, T: et, ID: len(a.cells) + a.depth*10000 + 1}
				if c.Name == "" {
					c.Name = x.Name()
				}
				a.cells[x] = c
			}
			st.cells[c] = a.zero(et)
			if a.writeLog != nil {
				a.writeLog.noteCell(c, nil)
			}
			a.regs[x] = Val{T: x.Type(), Sort: sInt, P: &Ptr{Kind: ptrLocal, Local: c}}
			return false
		}
		addr := a.alloc(st, x.Comment)
		a.storeAtQuiet(st, addr, et, a.zero(et))
		a.regs[x] = Val{S: addr, Sort: sInt, T: x.Type()}
		a.zeroFacts(st, a.regs[x], et)
	case *ssa.Store:
		p := a.val(st, x.Addr)
		v := a.val(st, x.Val)
		a.storeTo(st, p, v, x.Pos())
	case *ssa.UnOp:
		a.regs[x] = a.unop(st, x)
	case *ssa.BinOp:
		a.regs[x] = a.binop(st, x.Op, a.val(st, x.X), a.val(st, x.Y), x.Type(), x.Pos())
	case *ssa.Call:
		a.regs[x] = a.call(st, x)
	case *ssa.ChangeType:
		v := a.val(st, x.X)
		v.T = x.Type()
		a.regs[x] = v
	case *ssa.Convert:
		a.regs[x] = a.convert(st, a.val(st, x.X), x.Type())
	case *ssa.ChangeInterface:
		v := a.val(st, x.X)
		v.T = x.Type()
		a.regs[x] = v
	case *ssa.MakeInterface:
		a.regs[x] = a.makeIface(st, a.val(st, x.X), x.Type())
	case *ssa.TypeAssert:
		a.regs[x] = a.typeAssert(st, x)
	case *ssa.Extract:
		t := a.val(st, x.Tuple)
		if x.Index < len(t.Tup) {
			a.regs[x] = t.Tup[x.Index]
		} else {
			a.regs[x] = a.freshVal("extract", x.Type())
		}
	case *ssa.Field:
		v := a.val(st, x.X)
		a.regs[x] = a.getPath(v, []int{x.Field})
	case *ssa.FieldAddr:
		a.regs[x] = a.fieldAddr(st, a.val(st, x.X), x.Field, x.Type(), x.Pos())
	case *ssa.IndexAddr:
		a.regs[x] = a.indexAddr(st, x)
	case *ssa.Index:
		v := a.val(st, x.X)
		i := a.val(st, x.Index)
		if arr, ok := v.T.Underlying().(*types.Array); ok {
			vc.oblige(a.oblName("nopanic-index"), "nopanic", a.props, a.pos(x.Pos()), st.guard, fmt.Sprintf("(and (<= 0 %s) (< %s %d))", i.S, i.S, arr.Len()), "array index in range")
			a.regs[x] = Val{S: sel(v.S, i.S), Sort: g.sortOf(x.Type()), T: x.Type()}
		} else {
			a.regs[x] = a.freshVal("index", x.Type())
		}
	case *ssa.Lookup:
		a.regs[x] = a.lookup(st, x)
	case *ssa.MapUpdate:
		a.siteMapStore(st, x)
		a.mapUpdate(st, a.val(st, x.Map), a.val(st, x.Key), a.val(st, x.Value), x.Pos())
	case *ssa.MakeMap:
		a.regs[x] = a.makeMap(st, x.Type())
	case *ssa.MakeSlice:
		a.regs[x] = a.makeSlice(st, x)
	case *ssa.MakeChan:
		addr := a.alloc(st, "chan")
		sz := a.val(st, x.Size)
		k, hs := "G:chancap", "(Array Int Int)"
		vc.setHeap(st, k, hs, store(vc.getHeap(st, k, hs), addr, sz.S))
		// a new channel is open (a fact about the fresh address, not a write: nothing can have closed a channel that did not exist)
		vc.assume(st.guard, not(sel(vc.getHeap(st, "G:chanclosed", "(Array Int Bool)"), addr)))
		a.regs[x] = Val{S: addr, Sort: sInt, T: x.Type()}
	case *ssa.MakeClosure:
		fn := x.Fn.(*ssa.Function)
		var bs []Val
		for _, bnd := range x.Bindings {
			bs = append(bs, a.val(st, bnd))
		}
		addr := a.alloc(st, "closure")
		a.regs[x] = Val{S: addr, Sort: sInt, T: x.Type(), Fn: &FnVal{Fn: fn, Bindings: bs}}
	case *ssa.Slice:
		a.regs[x] = a.sliceOp(st, x)
	case *ssa.Range:
		a.regs[x] = a.rangeInit(st, x)
	case *ssa.Next:
		a.regs[x] = a.next(st, x)
	case *ssa.Select:
		a.regs[x] = a.selectOp(st, x)
	case *ssa.Send:
		ch := a.val(st, x.Chan)
		v := a.val(st, x.X)
		a.chanSend(st, ch, v, x.Chan, x.Pos())
	case *ssa.Go:
		vc.noteAssumed("goroutine spawn treated as no-op for the spawner: " + callName(x.Common()))
	case *ssa.Defer:
		var args []Val
		for _, arg := range x.Call.Args {
			args = append(args, a.val(st, arg))
		}
		rec := deferRec{instr: x, args: args}
		if !x.Call.IsInvoke() {
			if _, isB := x.Call.Value.(*ssa.Builtin); !isB {
				rec.fnv = a.val(st, x.Call.Value)
			}
		} else {
			rec.fnv = a.val(st, x.Call.Value)
		}
		st.defers = append(st.defers, rec)
	case *ssa.RunDefers:
		ds := st.defers
		st.defers = nil
		for i := len(ds) - 1; i >= 0; i-- {
			d := ds[i].instr.(*ssa.Defer)
			a.callCommon(st, &d.Call, ds[i].args, &ds[i].fnv, d.Pos(), nil)
		}
	case *ssa.Jump:
		a.edge(st, b, b.Succs[0], "true", incoming, only)
		return true
	case *ssa.If:
		c := a.val(st, x.Cond)
		cn := vc.define("c", sBool, c.S)
		a.edge(st, b, b.Succs[0], cn, incoming, only)
		a.edge(st, b, b.Succs[1], not(cn), incoming, only)
		return true
	case *ssa.Return:
		var vals []Val
		for _, r := range x.Results {
			vals = append(vals, a.val(st, r))
		}
		a.doReturn(st, vals, x.Pos(), x)
		return true
	case *ssa.Panic:
		a.doPanic(st, x)
		return true
	case *ssa.MultiConvert, *ssa.SliceToArrayPointer:
		v := in.(ssa.Value)
		vc.unsupported("instruction %T", in)
		a.regs[v] = a.freshVal("unsupp", v.Type())
	default:
		vc.unsupported("instruction %T", in)
		if v, ok := in.(ssa.Value); ok {
			a.regs[v] = a.freshVal("unsupp", v.Type())
		}
	}
	return false
}

// zeroFacts assumes the declared "zero" facts (model fields of a zero value) for a fresh allocation.
func (a *Act) zeroFacts(st *State, p Val, et types.Type) {
	n, ok := types.Unalias(et).(*types.Named)
	if !ok || n.Obj().Pkg() == nil {
		return
	}
	zi := a.eng.chaninvs["zero:"+n.Obj().Pkg().Path()+"."+n.Obj().Name()]
	if zi == nil {
		return
	}
	env := a.specEnv(st)
	env.vars[zi.Var] = p
	if s, err := env.evalBool(zi.Expr); err == nil {
		a.vc.assume("true", s)
	}
}

func (a *Act) storeAtQuiet(st *State, addr string, t types.Type, v Val) {
	wl := a.writeLog
	a.writeLog = nil
	w := a.written
	var tw map[string]bool
	if a.top != nil {
		tw = a.top.written
		a.top.written = nil
	}
	a.written = nil
	a.storeAt(st, addr, t, v)
	a.written = w
	if a.top != nil {
		a.top.written = tw
	}
	a.writeLog = wl
	// still need loop havoc for these keys: log them to the loop write log
	if wl != nil {
		a.logAllKeys(t, wl)
	}
}

func (a *Act) logAllKeys(t types.Type, wl *writeLog) {
	// fresh allocations inside a loop: their initialisation does not disturb existing locations, nothing to havoc
}

func (a *Act) edge(st *State, from, to *ssa.BasicBlock, cond string, incoming map[*ssa.BasicBlock][]edgeIn, only map[*ssa.BasicBlock]bool) {
	es := st.clone()
	es.guard = a.vc.define("e", sBool, and(st.guard, cond))
	if es.guard == "false" {
		return
	}
	if a.loopBody[to] != nil && to.Dominates(from) {
		// back edge: invariant preserved
		if a.vc.quiet == 0 {
			a.assertHints(to, es)
			a.assertInvs(to, es, "inv-preserved")
		}
		return
	}
	if only != nil && !only[to] {
		return
	}
	incoming[to] = append(incoming[to], edgeIn{from, es})
}

func callName(c *ssa.CallCommon) string {
	if c.IsInvoke() {
		return c.Method.FullName()
	}
	if f := c.StaticCallee(); f != nil {
		return f.String()
	}
	return c.Value.Name()
}

func (a *Act) unop(st *State, x *ssa.UnOp) Val {
	v := a.val(st, x.X)
	g := a.vc.g
	switch x.Op {
	case token.MUL:
		if gl, isG := x.X.(*ssa.Global); isG {
			if r, ok := a.constGlobalVal(gl); ok {
				return r
			}
		}
		r := a.load(st, v, x.Pos())
		r.T = x.Type()
		if r.S != "" && !isAtom(r.S) {
			r.S = a.vc.define("ld", r.Sort, r.S)
		}
		a.refFacts(st, r)
		return r
	case token.NOT:
		return Val{S: not(v.S), Sort: sBool, T: x.Type()}
	case token.SUB:
		return a.wrapInt(Val{S: "(- " + v.S + ")", Sort: v.Sort, T: x.Type()})
	case token.ARROW:
		return a.chanRecv(st, v, x.CommaOk, x.X, x.Pos())
	case token.XOR:
		r := a.freshVal("bitnot", x.Type())
		return r
	}
	a.vc.unsupported("unop %s", x.Op)
	_ = g
	return a.freshVal("unop", x.Type())
}

// constGlobalVal returns the constant modelling an init-only package variable.
func (a *Act) constGlobalVal(gl *ssa.Global) (Val, bool) {
	name, nonNil, ok := a.eng.constGlobal(gl)
	if !ok {
		return Val{}, false
	}
	t := deref(gl.Type())
	srt := a.vc.g.sortOf(t)
	if a.vc.g.structInfoOf(t) != nil {
		return Val{}, false
	}
	a.vc.g.decl("const "+name, fmt.Sprintf("(declare-const %s %s)", name, srt))
	a.vc.assumeOnce(a.vc.g.rangeFact(t, name))
	if nonNil && srt == sIface {
		a.vc.assumeOnce("(> (itag " + name + ") 0)")
		// distinct error values are distinct pointers
		for _, other := range a.eng.cglobNames {
			if other != name {
				a.vc.g.decl("const "+other, fmt.Sprintf("(declare-const %s %s)", other, sIface))
				a.vc.assumeOnce(not(eq(name, other)))
			}
		}
		a.eng.cglobNames = appendUnique(a.eng.cglobNames, name)
	}
	return Val{S: name, Sort: srt, T: t}, true
}

// wrapInt reduces a mathematical integer term into the range of its Go type (two's complement wrap).
func (a *Act) wrapInt(v Val) Val {
	b, ok := v.T.Underlying().(*types.Basic)
	if !ok {
		return v
	}
	bits, signed, ok := intBits(b)
	if !ok {
		return v
	}
	t := a.vc.define("ar", sInt, v.S)
	m := pow2(bits)
	if !signed {
		v.S = fmt.Sprintf("(mod %s %s)", t, m)
	} else {
		h := pow2(bits - 1)
		v.S = fmt.Sprintf("(- (mod (+ %s %s) %s) %s)", t, h, m, h)
	}
	return v
}

func (a *Act) arith(st *State, op string, x, y Val, t types.Type, pos token.Pos) Val {
	b, _ := t.Underlying().(*types.Basic)
	raw := "(" + op + " " + x.S + " " + y.S + ")"
	if b == nil {
		return Val{S: raw, Sort: sInt, T: t}
	}
	if b.Info()&types.IsFloat != 0 {
		return Val{S: raw, Sort: sReal, T: t}
	}
	bits, signed, ok := intBits(b)
	if !ok {
		return Val{S: raw, Sort: sInt, T: t}
	}
	if a.optOn("nowrap") {
		lo, hi, _ := intRange(b)
		r := a.vc.define("ar", sInt, raw)
		a.vc.oblige(a.oblName("nowrap"), "nowrap", a.props, a.pos(pos), st.guard, fmt.Sprintf("(and (<= %s %s) (<= %s %s))", lo, r, r, hi), "arithmetic "+op+" does not overflow "+b.Name())
		return Val{S: r, Sort: sInt, T: t}
	}
	m := pow2(bits)
	r := a.vc.define("ar", sInt, raw)
	switch {
	case op == "+" && !signed:
		return Val{S: fmt.Sprintf("(ite (< %s %s) %s (- %s %s))", r, m, r, r, m), Sort: sInt, T: t}
	case op == "-" && !signed:
		return Val{S: fmt.Sprintf("(ite (>= %s 0) %s (+ %s %s))", r, r, r, m), Sort: sInt, T: t}
	case (op == "+" || op == "-") && signed:
		h := pow2(bits - 1)
		return Val{S: fmt.Sprintf("(ite (>= %s %s) (- %s %s) (ite (< %s (- %s)) (+ %s %s) %s))", r, h, r, m, r, h, r, m, r), Sort: sInt, T: t}
	}
	return a.wrapInt(Val{S: r, Sort: sInt, T: t})
}

func (a *Act) binop(st *State, op token.Token, x, y Val, t types.Type, pos token.Pos) Val {
	vc := a.vc
	bl := func(s string) Val { return Val{S: s, Sort: sBool, T: t} }
	switch op {
	case token.EQL, token.NEQ:
		// slice == nil compares the data pointer only
		if x.Sort == sSlice && (x.S == "(mk_Slice 0 0 0 0)" || y.S == "(mk_Slice 0 0 0 0)") {
			o := x
			if x.S == "(mk_Slice 0 0 0 0)" {
				o = y
			}
			r := eq("(sl_arr "+o.S+")", "0")
			if op == token.NEQ {
				r = not(r)
			}
			return bl(r)
		}
		if op == token.EQL {
			return bl(a.equal(st, x, y))
		}
		return bl(not(a.equal(st, x, y)))
	case token.LSS, token.LEQ, token.GTR, token.GEQ:
		if x.Sort == sStr {
			switch op {
			case token.LSS:
				return bl(app("strlt", x.S, y.S))
			case token.GTR:
				return bl(app("strlt", y.S, x.S))
			case token.LEQ:
				return bl(not(app("strlt", y.S, x.S)))
			default:
				return bl(not(app("strlt", x.S, y.S)))
			}
		}
		ops := map[token.Token]string{token.LSS: "<", token.LEQ: "<=", token.GTR: ">", token.GEQ: ">="}
		return bl("(" + ops[op] + " " + x.S + " " + y.S + ")")
	case token.ADD:
		if x.Sort == sStr {
			return Val{S: app("strcat", x.S, y.S), Sort: sStr, T: t}
		}
		return a.arith(st, "+", x, y, t, pos)
	case token.SUB:
		return a.arith(st, "-", x, y, t, pos)
	case token.MUL:
		return a.arith(st, "*", x, y, t, pos)
	case token.QUO, token.REM:
		if x.Sort == sReal {
			return Val{S: "(/ " + x.S + " " + y.S + ")", Sort: sReal, T: t}
		}
		vc.oblige(a.oblName("nopanic-div"), "nopanic", a.props, a.pos(pos), st.guard, not(eq(y.S, "0")), "division by zero")
		b, _ := t.Underlying().(*types.Basic)
		_, signed, _ := intBits(b)
		if !signed {
			if op == token.QUO {
				return Val{S: "(div " + x.S + " " + y.S + ")", Sort: sInt, T: t}
			}
			return Val{S: "(mod " + x.S + " " + y.S + ")", Sort: sInt, T: t}
		}
		// Go truncated division for signed
		ax := fmt.Sprintf("(ite (>= %s 0) %s (- %s))", x.S, x.S, x.S)
		ay := fmt.Sprintf("(ite (>= %s 0) %s (- %s))", y.S, y.S, y.S)
		q := fmt.Sprintf("(div %s %s)", ax, ay)
		sq := fmt.Sprintf("(ite (= (>= %s 0) (>= %s 0)) %s (- %s))", x.S, y.S, q, q)
		if op == token.QUO {
			return a.wrapInt(Val{S: sq, Sort: sInt, T: t})
		}
		return Val{S: fmt.Sprintf("(- %s (* %s %s))", x.S, vc.define("q", sInt, sq), y.S), Sort: sInt, T: t}
	case token.SHL, token.SHR:
		// shifts by constants only
		if isAtom(y.S) && len(y.S) < 3 && y.S[0] >= '0' && y.S[0] <= '9' {
			var n int
			fmt.Sscanf(y.S, "%d", &n)
			p := "1"
			for i := 0; i < n; i++ {
				p = fmt.Sprintf("(* 2 %s)", p)
			}
			if op == token.SHL {
				return a.wrapInt(Val{S: "(* " + x.S + " " + p + ")", Sort: sInt, T: t})
			}
			return Val{S: "(div " + x.S + " " + p + ")", Sort: sInt, T: t}
		}
		return a.freshVal("shift", t)
	case token.AND, token.OR, token.XOR, token.AND_NOT:
		if x.Sort == sBool {
			switch op {
			case token.AND:
				return bl(and(x.S, y.S))
			case token.OR:
				return bl(or(x.S, y.S))
			}
		}
		fnm := map[token.Token]string{token.AND: "bit_and", token.OR: "bit_or", token.XOR: "bit_xor", token.AND_NOT: "bit_andnot"}[op]
		vc.g.decl("fn "+fnm, "(declare-fun "+fnm+" (Int Int) Int)")
		r := Val{S: app(fnm, x.S, y.S), Sort: sInt, T: t}
		vc.assume("true", vc.g.rangeFact(t, r.S))
		if op == token.AND {
			vc.assume("true", fmt.Sprintf("(=> (and (>= %s 0) (>= %s 0)) (and (<= %s %s) (<= %s %s)))", x.S, y.S, r.S, x.S, r.S, y.S))
		}
		return r
	}
	vc.unsupported("binop %s", op)
	return a.freshVal("binop", t)
}

func (a *Act) equal(st *State, x, y Val) string {
	if x.S == "" || y.S == "" {
		// engine-level pointers: compare identity
		if x.P != nil && y.P != nil {
			if x.P.Local == y.P.Local && x.P.Kind == y.P.Kind {
				return "true"
			}
			return "false"
		}
		if x.P != nil || y.P != nil {
			// local pointer vs nil / other address
			return "false"
		}
	}
	return eq(x.S, y.S)
}

func (a *Act) convert(st *State, v Val, t types.Type) Val {
	g := a.vc.g
	from := v.T
	ts := g.sortOf(t)
	if from == nil {
		v.T = t
		return v
	}
	fb, fok := from.Underlying().(*types.Basic)
	tb, tok := t.Underlying().(*types.Basic)
	switch {
	case fok && tok && v.Sort == sInt && ts == sInt:
		// integer conversion
		lo, hi, ok := intRange(tb)
		flo, fhi, fk := intRange(fb)
		r := Val{S: v.S, Sort: sInt, T: t}
		if ok && fk && !(rangeWithin(flo, fhi, lo, hi)) {
			fbits, fsigned, _ := intBits(fb)
			tbits, tsigned, _ := intBits(tb)
			if fbits == tbits && fsigned != tsigned {
				// same width, sign reinterpretation: one conditional correction, no mod
				x := a.vc.define("cv", sInt, v.S)
				if tsigned {
					r.S = fmt.Sprintf("(ite (< %s %s) %s (- %s %s))", x, pow2(tbits-1), x, x, pow2(tbits))
				} else {
					r.S = fmt.Sprintf("(ite (>= %s 0) %s (+ %s %s))", x, x, x, pow2(tbits))
				}
				return r
			}
			r = a.wrapInt(r)
		}
		return r
	case fok && tok && v.Sort == sInt && ts == sReal:
		return Val{S: "(to_real " + v.S + ")", Sort: sReal, T: t}
	case fok && tok && v.Sort == sReal && ts == sInt:
		return a.freshVal("f2i", t)
	case v.Sort == sStr && ts == sSlice:
		// []byte(s)
		arr := a.alloc(st, "bytes")
		ln := app("strlen", v.S)
		sl := Val{S: fmt.Sprintf("(mk_Slice %s 0 %s %s)", arr, ln, ln), Sort: sSlice, T: t}
		k, hs := memKey(sInt)
		a.vc.assume("true", eq(fmt.Sprintf("(str_of %s %s 0 %s)", a.vc.getHeap(st, k, hs), arr, ln), v.S))
		return sl
	case v.Sort == sSlice && ts == sStr:
		return Val{S: a.bytesStr(st, v), Sort: sStr, T: t}
	case v.Sort == sStr && ts == sStr:
		v.T = t
		return v
	case v.Sort == sInt && ts == sStr:
		g.decl("fn str_of_rune", "(declare-fun str_of_rune (Int) Str)")
		return Val{S: app("str_of_rune", v.S), Sort: sStr, T: t}
	}
	if v.Sort == ts {
		v.T = t
		return v
	}
	a.vc.unsupported("conversion %s -> %s", from, t)
	return a.freshVal("conv", t)
}

// bytesStr gives the string value of a byte slice in the current heap.
func (a *Act) bytesStr(st *State, v Val) string {
	k, hs := memKey(sInt)
	s := a.vc.define("bs", sSlice, v.S)
	r := fmt.Sprintf("(str_of %s (sl_arr %s) (sl_off %s) (sl_len %s))", a.vc.getHeap(st, k, hs), s, s, s)
	r = a.vc.define("str", sStr, r)
	a.vc.assume("true", eq(app("strlen", r), "(sl_len "+s+")"))
	return r
}

func rangeWithin(flo, fhi, lo, hi string) bool {
	// compare as big numbers by (sign,len,lex)
	return cmpNum(flo, lo) >= 0 && cmpNum(fhi, hi) <= 0
}

func cmpNum(x, y string) int {
	nx, vx := parseNum(x)
	ny, vy := parseNum(y)
	if nx != ny {
		if nx {
			return -1
		}
		return 1
	}
	c := 0
	if len(vx) != len(vy) {
		if len(vx) < len(vy) {
			c = -1
		} else {
			c = 1
		}
	} else {
		c = strings.Compare(vx, vy)
	}
	if nx {
		return -c
	}
	return c
}

func parseNum(s string) (neg bool, digits string) {
	if strings.HasPrefix(s, "(- ") {
		return true, strings.TrimSuffix(s[3:], ")")
	}
	return false, s
}

func (a *Act) makeIface(st *State, v Val, t types.Type) Val {
	g := a.vc.g
	if v.T != nil {
		if _, ok := v.T.Underlying().(*types.Interface); ok {
			if _, isTP := isTypeParam(v.T); !isTP {
				v.T = t
				return v
			}
		}
	}
	if v.P != nil && v.P.Kind == ptrLocal {
		a.vc.unsupported("address of non-escaping local converted to interface")
	}
	tagN := g.typeTag(v.T)
	payload := v.S
	if v.Sort != sInt {
		bx := "box_" + sanitize(v.Sort)
		g.decl("fn "+bx, fmt.Sprintf("(declare-fun %s (%s) Int)", bx, v.Sort))
		g.decl("fn un"+bx, fmt.Sprintf("(declare-fun un%s (Int) %s)", bx, v.Sort))
		ax := fmt.Sprintf("(forall ((x %s)) (! (= (un%s (%s x)) x) :pattern ((%s x))))", v.Sort, bx, bx, bx)
		g.addAxiom("("+bx+" ", ax)
		payload = app(bx, v.S)
	}
	under := v
	return Val{S: fmt.Sprintf("(mk_Iface %d %s)", tagN, payload), Sort: sIface, T: t, Fn: v.Fn, Under: &under}
}

func (a *Act) typeAssert(st *State, x *ssa.TypeAssert) Val {
	g := a.vc.g
	v := a.val(st, x.X)
	at := x.AssertedType
	var okT string
	var res Val
	if _, isIface := at.Underlying().(*types.Interface); isIface {
		if _, isTP := isTypeParam(at); !isTP {
			p := "impl_" + sanitize(types.TypeString(at, nil))
			g.decl("fn "+p, "(declare-fun "+p+" (Int) Bool)")
			okT = and(not(eq("(itag "+v.S+")", "0")), app(p, "(itag "+v.S+")"))
			// static knowledge: if the static type of X implements the asserted interface, any non-nil value does
			if types.AssignableTo(x.X.Type(), at) {
				okT = not(eq("(itag "+v.S+")", "0"))
			}
			res = Val{S: v.S, Sort: sIface, T: at}
			goto done
		}
	}
	{
		tagN := g.typeTag(at)
		okT = eq("(itag "+v.S+")", fmt.Sprintf("%d", tagN))
		srt := g.sortOf(at)
		if srt == sInt {
			res = Val{S: "(ival " + v.S + ")", Sort: sInt, T: at}
		} else {
			bx := "box_" + sanitize(srt)
			g.decl("fn "+bx, fmt.Sprintf("(declare-fun %s (%s) Int)", bx, srt))
			g.decl("fn un"+bx, fmt.Sprintf("(declare-fun un%s (Int) %s)", bx, srt))
			res = Val{S: app("un"+bx, "(ival "+v.S+")"), Sort: srt, T: at}
		}
	}
done:
	if x.CommaOk {
		okN := a.vc.define("taok", sBool, okT)
		z := a.zero(at)
		res.S = ite(okN, res.S, z.S)
		return Val{Tup: []Val{res, {S: okN, Sort: sBool, T: types.Typ[types.Bool]}}, Sort: "Tuple", T: x.Type()}
	}
	a.vc.oblige(a.oblName("nopanic-typeassert"), "nopanic", a.props, a.pos(x.Pos()), st.guard, okT, "type assertion to "+types.TypeString(at, nil)+" succeeds")
	return res
}

func (a *Act) fieldAddr(st *State, base Val, field int, t types.Type, pos token.Pos) Val {
	g := a.vc.g
	stT := deref(base.T)
	if base.P != nil && base.P.Kind == ptrLocal {
		np := *base.P
		np.Path = append(append([]int(nil), base.P.Path...), field)
		return Val{T: t, Sort: sInt, P: &np}
	}
	if base.P != nil && base.P.Kind == ptrField {
		// field of a struct-typed field is handled via address functions, so this cannot happen
		a.vc.unsupported("nested primitive field pointer")
	}
	a.nilCheck(st, base, pos)
	si := g.structInfoOf(stT)
	if si == nil {
		a.vc.unsupported("FieldAddr on non-struct %s", stT)
		return a.freshVal("fa", t)
	}
	f := si.Fields[field]
	if g.structInfoOf(f.T) != nil {
		return Val{S: a.vc.define("fa", sInt, app(g.fldFn(si, field), base.S)), Sort: sInt, T: t}
	}
	return Val{T: t, Sort: sInt, P: &Ptr{Kind: ptrField, Base: base.S, ST: stT, Field: field}}
}

func (a *Act) indexAddr(st *State, x *ssa.IndexAddr) Val {
	v := a.val(st, x.X)
	i := a.val(st, x.Index)
	vc := a.vc
	switch u := v.T.Underlying().(type) {
	case *types.Slice:
		s := vc.define("sl", sSlice, v.S)
		vc.oblige(a.oblName("nopanic-index"), "nopanic", a.props, a.pos(x.Pos()), st.guard, fmt.Sprintf("(and (<= 0 %s) (< %s (sl_len %s)))", i.S, i.S, s), "slice index in range")
		addr := fmt.Sprintf("(selem %s %s)", s, i.S)
		return Val{S: vc.define("ea", sInt, addr), Sort: sInt, T: x.Type()}
	case *types.Pointer:
		if arr, ok := u.Elem().Underlying().(*types.Array); ok {
			vc.oblige(a.oblName("nopanic-index"), "nopanic", a.props, a.pos(x.Pos()), st.guard, fmt.Sprintf("(and (<= 0 %s) (< %s %d))", i.S, i.S, arr.Len()), "array index in range")
			if v.P != nil {
				vc.unsupported("index into local array via pointer")
				return a.freshVal("ia", x.Type())
			}
			return Val{S: vc.define("ea", sInt, fmt.Sprintf("(elem %s %s)", v.S, i.S)), Sort: sInt, T: x.Type()}
		}
	}
	vc.unsupported("IndexAddr on %s", v.T)
	return a.freshVal("ia", x.Type())
}

func (a *Act) mapHeaps(st *State, mt *types.Map) (dk, ds, vk, vs string, ks, vsort string) {
	g := a.vc.g
	ks = g.sortOf(mt.Key())
	vsort = g.sortOf(mt.Elem())
	tag := mapTag(g, mt)
	dk = "MD:" + tag
	ds = "(Array Int (Array " + ks + " Bool))"
	vk = "MV:" + tag
	vs = "(Array Int (Array " + ks + " " + vsort + "))"
	return
}

// mapTag names the heaps of one map type: key sort, value sort and, for integer keys/values, the Go kind - maps of
// different Go types (map[string]uint32 vs map[string]uint64) can never alias, so they get separate heaps.
func mapTag(g *Globals, mt *types.Map) string {
	part := func(t types.Type) string {
		s := g.sortOf(t)
		if b, ok := t.Underlying().(*types.Basic); ok && s == sInt {
			return s + "." + b.Name()
		}
		return s
	}
	k, v := part(mt.Key()), part(mt.Elem())
	// keep the historical names for the common non-integer cases (contracts name them in reads clauses)
	return k + ":" + v
}

// mlKey is the length heap of maps of type mt (one heap per map type, so maps of different types never alias).
func (a *Act) mlKey(mt *types.Map) string {
	return "ML:" + mapTag(a.vc.g, mt)
}

func (a *Act) lookup(st *State, x *ssa.Lookup) Val {
	vc := a.vc
	m := a.val(st, x.X)
	k := a.val(st, x.Index)
	if mt, ok := m.T.Underlying().(*types.Map); ok {
		a.checkGuard(st, m.Guard, false, "guarded map", x.Pos())
		k = a.convKey(st, k, mt.Key())
		dk, ds, vk, vs, _, _ := a.mapHeaps(st, mt)
		dom := sel(vc.getHeap(st, dk, ds), m.S)
		okT := vc.define("mok", sBool, and(not(eq(m.S, "0")), sel(dom, k.S)))
		z := a.zero(mt.Elem())
		vv := ite(okT, sel(sel(vc.getHeap(st, vk, vs), m.S), k.S), z.S)
		res := Val{S: vc.define("mv", z.Sort, vv), Sort: z.Sort, T: mt.Elem()}
		a.refFacts(st, res)
		if _, isFn := mt.Elem().Underlying().(*types.Signature); isFn {
			res.Fn = nil
		}
		if x.CommaOk {
			return Val{Tup: []Val{res, {S: okT, Sort: sBool, T: types.Typ[types.Bool]}}, Sort: "Tuple", T: x.Type()}
		}
		return res
	}
	// string index
	if m.Sort == sStr {
		vc.oblige(a.oblName("nopanic-index"), "nopanic", a.props, a.pos(x.Pos()), st.guard, fmt.Sprintf("(and (<= 0 %s) (< %s (strlen %s)))", k.S, k.S, m.S), "string index in range")
		r := Val{S: app("str_at", m.S, k.S), Sort: sInt, T: x.Type()}
		vc.assume("true", vc.g.rangeFact(x.Type(), r.S))
		return r
	}
	vc.unsupported("Lookup on %s", m.T)
	return a.freshVal("lk", x.Type())
}

// convKey converts a key value to the map's key type representation (e.g. concrete -> interface).
func (a *Act) convKey(st *State, k Val, kt types.Type) Val {
	if a.vc.g.sortOf(kt) == sIface && k.Sort != sIface {
		return a.makeIface(st, k, kt)
	}
	return k
}

func (a *Act) mapUpdate(st *State, m, k, v Val, pos token.Pos) {
	vc := a.vc
	mt, ok := m.T.Underlying().(*types.Map)
	if !ok {
		vc.unsupported("MapUpdate on %s", m.T)
		return
	}
	k = a.convKey(st, k, mt.Key())
	a.checkGuard(st, m.Guard, true, "guarded map", pos)
	if a.optOn("nilcheck") {
		vc.oblige(a.oblName("nopanic-nilmap"), "nopanic", a.props, a.pos(pos), st.guard, not(eq(m.S, "0")), "assignment to entry in nil map")
	} else {
		vc.assume(st.guard, not(eq(m.S, "0")))
	}
	dk, ds, vk, vs, _, _ := a.mapHeaps(st, mt)
	D := vc.getHeap(st, dk, ds)
	V := vc.getHeap(st, vk, vs)
	L := vc.getHeap(st, a.mlKey(mt), "(Array Int Int)")
	had := sel(sel(D, m.S), k.S)
	vc.setHeap(st, a.mlKey(mt), "(Array Int Int)", store(L, m.S, ite(had, sel(L, m.S), "(+ 1 "+sel(L, m.S)+")")))
	vc.setHeap(st, dk, ds, store(D, m.S, store(sel(D, m.S), k.S, "true")))
	vc.setHeap(st, vk, vs, store(V, m.S, store(sel(V, m.S), k.S, v.S)))
	a.logHeapAt(dk, m.S)
	a.logHeapAt(vk, m.S)
	a.logHeapAt(a.mlKey(mt), m.S)
}

func (a *Act) mapDelete(st *State, m, k Val) {
	vc := a.vc
	a.checkGuard(st, m.Guard, true, "guarded map", token.NoPos)
	mt := m.T.Underlying().(*types.Map)
	k = a.convKey(st, k, mt.Key())
	dk, ds, _, _, _, _ := a.mapHeaps(st, mt)
	D := vc.getHeap(st, dk, ds)
	L := vc.getHeap(st, a.mlKey(mt), "(Array Int Int)")
	had := and(not(eq(m.S, "0")), sel(sel(D, m.S), k.S))
	vc.setHeap(st, a.mlKey(mt), "(Array Int Int)", store(L, m.S, ite(had, "(- "+sel(L, m.S)+" 1)", sel(L, m.S))))
	vc.setHeap(st, dk, ds, store(D, m.S, store(sel(D, m.S), k.S, "false")))
	a.logHeapAt(dk, m.S)
	a.logHeapAt(a.mlKey(mt), m.S)
}

func (a *Act) mapClear(st *State, m Val) {
	vc := a.vc
	mt := m.T.Underlying().(*types.Map)
	dk, ds, _, _, ks, _ := a.mapHeaps(st, mt)
	D := vc.getHeap(st, dk, ds)
	L := vc.getHeap(st, a.mlKey(mt), "(Array Int Int)")
	vc.setHeap(st, a.mlKey(mt), "(Array Int Int)", store(L, m.S, "0"))
	vc.setHeap(st, dk, ds, store(D, m.S, fmt.Sprintf("((as const (Array %s Bool)) false)", ks)))
	a.logHeapAt(dk, m.S)
	a.logHeapAt(a.mlKey(mt), m.S)
}

func (a *Act) makeMap(st *State, t types.Type) Val {
	vc := a.vc
	mt := t.Underlying().(*types.Map)
	addr := a.alloc(st, "map")
	dk, ds, _, _, ks, _ := a.mapHeaps(st, mt)
	D := vc.getHeap(st, dk, ds)
	L := vc.getHeap(st, a.mlKey(mt), "(Array Int Int)")
	// a fresh map is empty in the current heap (no new heap version needed: the address is fresh)
	vc.assume("true", eq(sel(D, addr), fmt.Sprintf("((as const (Array %s Bool)) false)", ks)))
	vc.assume("true", eq(sel(L, addr), "0"))
	return Val{S: addr, Sort: sInt, T: t}
}

func (a *Act) mapLen(st *State, m Val) string {
	mt := m.T.Underlying().(*types.Map)
	L := a.vc.getHeap(st, a.mlKey(mt), "(Array Int Int)")
	r := ite(eq(m.S, "0"), "0", sel(L, m.S))
	a.vc.assume("true", "(and (>= "+sel(L, m.S)+" 0) (<= "+sel(L, m.S)+" 9223372036854775807))")
	// a map with a key has positive length
	dk, ds, _, _, ks, _ := a.mapHeaps(st, mt)
	dom := sel(a.vc.getHeap(st, dk, ds), m.S)
	a.vc.assume(st.guard, fmt.Sprintf("(forall ((k %s)) (! (=> (and (not (= %s 0)) (select %s k)) (>= %s 1)) :pattern ((select %s k))))", ks, m.S, dom, sel(L, m.S), dom))
	// ... and a map of positive length has a key
	wit := a.vc.fresh("mapwit", ks)
	a.vc.assume(st.guard, fmt.Sprintf("(=> (and (not (= %s 0)) (>= %s 1)) (select %s %s))", m.S, sel(L, m.S), dom, wit))
	return r
}

func (a *Act) makeSlice(st *State, x *ssa.MakeSlice) Val {
	vc := a.vc
	ln := a.val(st, x.Len)
	cp := a.val(st, x.Cap)
	vc.oblige(a.oblName("nopanic-makeslice"), "nopanic", a.props, a.pos(x.Pos()), st.guard, fmt.Sprintf("(and (<= 0 %s) (<= %s %s))", ln.S, ln.S, cp.S), "make: len and cap in range")
	arr := a.alloc(st, "arr")
	et := x.Type().Underlying().(*types.Slice).Elem()
	a.assumeZeroed(st, arr, et)
	return Val{S: fmt.Sprintf("(mk_Slice %s 0 %s %s)", arr, ln.S, cp.S), Sort: sSlice, T: x.Type()}
}

// assumeZeroed states that all elements of the fresh array arr are zero in the current heap.
func (a *Act) assumeZeroed(st *State, arr string, et types.Type) {
	vc := a.vc
	g := vc.g
	var rec func(t types.Type, addrOf func(string) string)
	rec = func(t types.Type, addrOf func(string) string) {
		if si := g.structInfoOf(t); si != nil {
			for i, f := range si.Fields {
				i := i
				if g.structInfoOf(f.T) != nil {
					fn := g.fldFn(si, i)
					rec(f.T, func(x string) string { return app(fn, addrOf(x)) })
				} else {
					k, srt := g.fieldHeapKey(si, i)
					H := vc.getHeap(st, k, srt)
					vc.assume("true", fmt.Sprintf("(forall ((i Int)) (! (= %s %s) :pattern (%s)))", sel(H, addrOf("i")), a.zero(f.T).S, sel(H, addrOf("i"))))
				}
			}
			return
		}
		k, hs := memKey(g.sortOf(t))
		H := vc.getHeap(st, k, hs)
		vc.assume("true", fmt.Sprintf("(forall ((i Int)) (! (= %s %s) :pattern (%s)))", sel(H, addrOf("i")), a.zero(t).S, sel(H, addrOf("i"))))
	}
	rec(et, func(x string) string { return fmt.Sprintf("(elem %s %s)", arr, x) })
}

func (a *Act) sliceOp(st *State, x *ssa.Slice) Val {
	vc := a.vc
	v := a.val(st, x.X)
	var lo, hi, mx string
	if x.Low != nil {
		lo = a.val(st, x.Low).S
	} else {
		lo = "0"
	}
	if v.Sort == sStr {
		if x.High != nil {
			hi = a.val(st, x.High).S
		} else {
			hi = app("strlen", v.S)
		}
		vc.oblige(a.oblName("nopanic-slice"), "nopanic", a.props, a.pos(x.Pos()), st.guard, fmt.Sprintf("(and (<= 0 %s) (<= %s %s) (<= %s (strlen %s)))", lo, lo, hi, hi, v.S), "string slice bounds in range")
		vc.g.decl("fn str_sub", "(declare-fun str_sub (Str Int Int) Str)")
		r := vc.define("sub", sStr, fmt.Sprintf("(str_sub %s %s %s)", v.S, lo, hi))
		vc.assume(st.guard, eq(app("strlen", r), fmt.Sprintf("(- %s %s)", hi, lo)))
		return Val{S: r, Sort: sStr, T: x.Type()}
	}
	var arr, off, ln, cp string
	switch u := v.T.Underlying().(type) {
	case *types.Slice:
		s := vc.define("sl", sSlice, v.S)
		arr, off, ln, cp = "(sl_arr "+s+")", "(sl_off "+s+")", "(sl_len "+s+")", "(sl_cap "+s+")"
	case *types.Pointer:
		at, ok := u.Elem().Underlying().(*types.Array)
		if !ok || v.P != nil {
			vc.unsupported("Slice of %s", v.T)
			return a.freshVal("slice", x.Type())
		}
		arr, off = v.S, "0"
		ln = fmt.Sprintf("%d", at.Len())
		cp = ln
	default:
		vc.unsupported("Slice of %s", v.T)
		return a.freshVal("slice", x.Type())
	}
	if x.High != nil {
		hi = a.val(st, x.High).S
	} else {
		hi = ln
	}
	if x.Max != nil {
		mx = a.val(st, x.Max).S
	} else {
		mx = cp
	}
	vc.oblige(a.oblName("nopanic-slice"), "nopanic", a.props, a.pos(x.Pos()), st.guard, fmt.Sprintf("(and (<= 0 %s) (<= %s %s) (<= %s %s) (<= %s %s))", lo, lo, hi, hi, mx, mx, cp), "slice bounds in range")
	return Val{S: fmt.Sprintf("(mk_Slice %s (+ %s %s) (- %s %s) (- %s %s))", arr, off, lo, hi, lo, mx, lo), Sort: sSlice, T: x.Type()}
}

// ---- map iteration ----

func (a *Act) rangeInit(st *State, x *ssa.Range) Val {
	vc := a.vc
	m := a.val(st, x.X)
	a.checkGuard(st, m.Guard, false, "guarded map", x.Pos())
	it := &iterInfo{rng: x, mapVal: m}
	if mt, ok := m.T.Underlying().(*types.Map); ok {
		_, _, _, _, ks, vs := a.mapHeaps(st, mt)
		it.keySort, it.valSort, it.kt, it.vt = ks, vs, mt.Key(), mt.Elem()
		it.visited = fmt.Sprintf("IT:%s:%d", x.Name(), a.depth)
		srt := "(Array " + ks + " Bool)"
		a.vc.heapSorts[it.visited] = srt
		st.heap[it.visited] = fmt.Sprintf("((as const %s) false)", srt)
	} else {
		it.isStr = true
		vc.unsupported("range over string")
	}
	if a.iters == nil {
		a.iters = map[*ssa.Range]*iterInfo{}
	}
	a.iters[x] = it
	return Val{S: "0", Sort: sInt, T: x.Type()}
}

func (a *Act) next(st *State, x *ssa.Next) Val {
	vc := a.vc
	rng, _ := x.Iter.(*ssa.Range)
	it := a.iters[rng]
	if it == nil || it.isStr {
		return a.freshVal("next", x.Type())
	}
	mt := it.mapVal.T.Underlying().(*types.Map)
	dk, ds, vk, vs, ks, _ := a.mapHeaps(st, mt)
	m := it.mapVal.S
	dom := sel(vc.getHeap(st, dk, ds), m)
	srt := "(Array " + ks + " Bool)"
	vis := vc.getHeap(st, it.visited, srt)
	ok := vc.fresh("nxok", sBool)
	k := vc.fresh("nxk", ks)
	vc.assume("true", vc.g.rangeFact(it.kt, k))
	isNil := eq(m, "0")
	vc.assume(st.guard, implies(ok, and(not(isNil), sel(dom, k), not(sel(vis, k)))))
	vc.assume(st.guard, implies(not(ok), fmt.Sprintf("(forall ((k %s)) (! (=> (and (not %s) %s) %s) :pattern (%s)))", ks, isNil, sel(dom, "k"), sel(vis, "k"), sel(vis, "k"))))
	vv := vc.define("nxv", it.valSort, sel(sel(vc.getHeap(st, vk, vs), m), k))
	vc.setHeap(st, it.visited, srt, ite(ok, store(vis, k, "true"), vis))
	if a.writeLog != nil {
		a.writeLog.note(it.visited, "")
	}
	val := Val{S: vv, Sort: it.valSort, T: it.vt}
	a.refFacts(st, val)
	return Val{Tup: []Val{{S: ok, Sort: sBool, T: types.Typ[types.Bool]}, {S: k, Sort: ks, T: it.kt}, val}, Sort: "Tuple", T: x.Type()}
}

// siteMapStore checks the contract's "site mapstore <local>" assertions at a store into that local map.
func (a *Act) siteMapStore(st *State, x *ssa.MapUpdate) {
	if a.con == nil || a.inlined || len(a.con.Sites) == 0 || a.vc.quiet > 0 {
		return
	}
	mv := a.val(st, x.Map)
	for _, c := range a.con.Sites {
		if c.Kind != "site-mapstore" {
			continue
		}
		env := a.specEnv(st)
		lv, ok := env.localVarQuiet(c.LoopFn)
		if !ok || lv.S == "" || lv.S != mv.S {
			continue
		}
		a.siteN++
		name := fmt.Sprintf("%s/site mapstore %s#%d", a.prefix, c.LoopFn, a.siteN)
		if c.Label != "" {
			name = fmt.Sprintf("%s/site mapstore %s.%s#%d", a.prefix, c.LoopFn, c.Label, a.siteN)
		}
		v, err := env.evalBool(c.Expr)
		n0 := len(a.vc.obls)
		if err != nil {
			a.vc.oblige(name, "site", a.props, c.Line, st.guard, "false", "contract error: "+err.Error()+" in: "+c.Text)
		} else {
			a.vc.oblige(name, "site", a.props, a.pos(x.Pos())+" ["+c.Line+"]", st.guard, v, "at every store into "+c.LoopFn+": "+c.Text)
		}
		if len(a.vc.obls) > n0 && len(c.Props) > 0 {
			a.vc.obls[len(a.vc.obls)-1].OnlyProps = c.Props
		}
	}
}
