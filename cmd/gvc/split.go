package main

import "strings"

// Goal splitting: an obligation whose goal is (=> a1 (=> a2 (and c1 c2 ...))) that no solver decides as a whole
// is retried as one query per conjunct (=> a1 a2 ci). The obligation is discharged only if every part is.

type sx struct {
	atom string
	kids []*sx
	list bool
}

func parseSx(s string) *sx {
	pos := 0
	var parse func() *sx
	skip := func() {
		for pos < len(s) && (s[pos] == ' ' || s[pos] == '\n' || s[pos] == '\t') {
			pos++
		}
	}
	parse = func() *sx {
		skip()
		if pos >= len(s) {
			return nil
		}
		if s[pos] == '(' {
			pos++
			n := &sx{list: true}
			for {
				skip()
				if pos >= len(s) {
					return nil
				}
				if s[pos] == ')' {
					pos++
					return n
				}
				k := parse()
				if k == nil {
					return nil
				}
				n.kids = append(n.kids, k)
			}
		}
		start := pos
		switch s[pos] {
		case '|':
			pos++
			for pos < len(s) && s[pos] != '|' {
				pos++
			}
			pos++
		case '"':
			pos++
			for pos < len(s) {
				if s[pos] == '"' {
					if pos+1 < len(s) && s[pos+1] == '"' {
						pos += 2
						continue
					}
					break
				}
				pos++
			}
			pos++
		default:
			for pos < len(s) && s[pos] != ' ' && s[pos] != '\n' && s[pos] != '\t' && s[pos] != '(' && s[pos] != ')' {
				pos++
			}
		}
		if pos > len(s) {
			return nil
		}
		return &sx{atom: s[start:pos]}
	}
	n := parse()
	skip()
	if pos != len(s) {
		return nil
	}
	return n
}

func (n *sx) String() string {
	if !n.list {
		return n.atom
	}
	var parts []string
	for _, k := range n.kids {
		parts = append(parts, k.String())
	}
	return "(" + strings.Join(parts, " ") + ")"
}

func (n *sx) head() string {
	if n.list && len(n.kids) > 0 && !n.kids[0].list {
		return n.kids[0].atom
	}
	return ""
}

// splitGoal returns the conjunct-wise parts of goal (nil if it does not split into at least two).
func splitGoal(goal string) []string {
	root := parseSx(goal)
	if root == nil {
		return nil
	}
	var out []string
	var walk func(n *sx, ants []string)
	walk = func(n *sx, ants []string) {
		switch n.head() {
		case "=>":
			if len(n.kids) >= 3 {
				a := append([]string(nil), ants...)
				for _, k := range n.kids[1 : len(n.kids)-1] {
					a = append(a, k.String())
				}
				walk(n.kids[len(n.kids)-1], a)
				return
			}
		case "and":
			for _, k := range n.kids[1:] {
				walk(k, ants)
			}
			return
		}
		g := n.String()
		if len(ants) > 0 {
			g = "(=> " + and(ants...) + " " + g + ")"
		}
		out = append(out, g)
	}
	walk(root, nil)
	if len(out) < 2 {
		return nil
	}
	return out
}

// skolemizeGoal replaces universally quantified subformulas in positive positions of a goal (which is asserted negated)
// by fresh constants: not (A => forall x. B) is equisatisfiable with not (A => B[sk/x]). The solvers decide the
// skolemized form far more reliably than the nested-quantifier form.
func skolemizeGoal(goal string) (decls []string, out string) {
	if !strings.Contains(goal, "(forall ") {
		return nil, goal
	}
	root := parseSx(goal)
	if root == nil {
		return nil, goal
	}
	n := 0
	var subst func(x *sx, m map[string]string) *sx
	subst = func(x *sx, m map[string]string) *sx {
		if !x.list {
			if r, ok := m[x.atom]; ok {
				return &sx{atom: r}
			}
			return x
		}
		h := x.head()
		if (h == "forall" || h == "exists" || h == "let") && len(x.kids) == 3 {
			// shadowing: drop rebound names
			m2 := m
			for _, b := range x.kids[1].kids {
				if b.list && len(b.kids) > 0 && !b.kids[0].list {
					if _, ok := m[b.kids[0].atom]; ok {
						if &m2 == &m || len(m2) == len(m) {
							m2 = map[string]string{}
							for k, v := range m {
								m2[k] = v
							}
						}
						delete(m2, b.kids[0].atom)
					}
				}
			}
			if h == "let" {
				// binding values are evaluated in the outer scope
				nb := &sx{list: true}
				for _, b := range x.kids[1].kids {
					if b.list && len(b.kids) == 2 {
						nb.kids = append(nb.kids, &sx{list: true, kids: []*sx{b.kids[0], subst(b.kids[1], m)}})
					} else {
						nb.kids = append(nb.kids, b)
					}
				}
				return &sx{list: true, kids: []*sx{x.kids[0], nb, subst(x.kids[2], m2)}}
			}
			return &sx{list: true, kids: []*sx{x.kids[0], x.kids[1], subst(x.kids[2], m2)}}
		}
		o := &sx{list: true}
		for _, k := range x.kids {
			o.kids = append(o.kids, subst(k, m))
		}
		return o
	}
	var pos func(x *sx) *sx
	pos = func(x *sx) *sx {
		switch x.head() {
		case "=>":
			if len(x.kids) >= 3 {
				o := &sx{list: true, kids: append([]*sx(nil), x.kids...)}
				o.kids[len(o.kids)-1] = pos(x.kids[len(x.kids)-1])
				return o
			}
		case "and", "or":
			o := &sx{list: true, kids: []*sx{x.kids[0]}}
			for _, k := range x.kids[1:] {
				o.kids = append(o.kids, pos(k))
			}
			return o
		case "forall":
			if len(x.kids) == 3 && x.kids[1].list {
				m := map[string]string{}
				for _, b := range x.kids[1].kids {
					if !b.list || len(b.kids) != 2 || b.kids[0].list {
						return x
					}
					n++
					nm := "sk!" + itoa(n) + "_" + strings.Trim(b.kids[0].atom, "|")
					m[b.kids[0].atom] = nm
					decls = append(decls, "(declare-const "+nm+" "+b.kids[1].String()+")")
				}
				body := x.kids[2]
				if body.head() == "!" && len(body.kids) >= 2 {
					body = body.kids[1]
				}
				return pos(subst(body, m))
			}
		}
		return x
	}
	r := pos(root)
	if len(decls) == 0 {
		return nil, goal
	}
	return decls, r.String()
}

func itoa(n int) string {
	if n == 0 {
		return "0"
	}
	s := ""
	for n > 0 {
		s = string(rune('0'+n%10)) + s
		n /= 10
	}
	return s
}
