package main

import (
	"fmt"
	"go/token"
	"go/types"
	"strings"

	"golang.org/x/tools/go/ssa"
)

func (a *Act) builtin(st *State, f *ssa.Builtin, args []Val, c *ssa.CallCommon, resT types.Type, pos token.Pos) Val {
	vc := a.vc
	g := vc.g
	switch f.Name() {
	case "len":
		v := args[0]
		switch {
		case v.Sort == sSlice:
			return Val{S: "(sl_len " + v.S + ")", Sort: sInt, T: resT}
		case v.Sort == sStr:
			return Val{S: app("strlen", v.S), Sort: sInt, T: resT}
		}
		switch u := v.T.Underlying().(type) {
		case *types.Map:
			return Val{S: vc.define("maplen", sInt, a.mapLen(st, v)), Sort: sInt, T: resT}
		case *types.Array:
			return Val{S: fmt.Sprint(u.Len()), Sort: sInt, T: resT}
		case *types.Pointer:
			if at, ok := u.Elem().Underlying().(*types.Array); ok {
				return Val{S: fmt.Sprint(at.Len()), Sort: sInt, T: resT}
			}
		case *types.Chan:
			r := a.freshVal("chanlen", resT)
			vc.assume("true", "(>= "+r.S+" 0)")
			return r
		}
	case "cap":
		v := args[0]
		if v.Sort == sSlice {
			return Val{S: "(sl_cap " + v.S + ")", Sort: sInt, T: resT}
		}
		r := a.freshVal("cap", resT)
		vc.assume("true", "(>= "+r.S+" 0)")
		return r
	case "append":
		return a.appendOp(st, args, resT, pos)
	case "copy":
		dst, src := args[0], args[1]
		et := dst.T.Underlying().(*types.Slice).Elem()
		n := a.freshVal("copied", resT)
		var sl string
		if src.Sort == sStr {
			sl = app("strlen", src.S)
		} else {
			sl = "(sl_len " + src.S + ")"
		}
		vc.assume(st.guard, eq(n.S, ite("(<= (sl_len "+dst.S+") "+sl+")", "(sl_len "+dst.S+")", sl)))
		// contents: havoc destination region then constrain element-wise
		a.copyElems(st, dst, src, n.S, et)
		return n
	case "delete":
		a.mapDelete(st, args[0], args[1])
		return Val{Sort: "Tuple"}
	case "clear":
		if _, ok := args[0].T.Underlying().(*types.Map); ok {
			a.mapClear(st, args[0])
		} else if sl, ok := args[0].T.Underlying().(*types.Slice); ok {
			a.havocRegion(st, "(sl_arr "+args[0].S+")", sl.Elem())
			vc.noteAssumed("clear(slice) modelled as havoc of the backing array")
		}
		return Val{Sort: "Tuple"}
	case "min", "max":
		r := args[0]
		for _, y := range args[1:] {
			var c string
			if r.Sort == sStr {
				if f.Name() == "min" {
					c = not(app("strlt", y.S, r.S))
				} else {
					c = not(app("strlt", r.S, y.S))
				}
			} else if f.Name() == "min" {
				c = "(<= " + r.S + " " + y.S + ")"
			} else {
				c = "(>= " + r.S + " " + y.S + ")"
			}
			r = Val{S: vc.define("mm", r.Sort, ite(c, r.S, y.S)), Sort: r.Sort, T: resT}
		}
		return r
	case "close":
		ch := args[0]
		a.chanTypeFact(st, ch)
		if a.top != nil {
			a.top.didClose = true
		} else {
			a.didClose = true
		}
		// site close <channel expression suffix>: assertion at this close (the separate-file form of an inline assert)
		if a.con != nil && !a.inlined && vc.quiet == 0 && a.curCall != nil && len(a.curCall.Args) == 1 {
			prov := provenance(a.curCall.Args[0], 0)
			for _, c := range a.con.Sites {
				if c.Kind != "site-close" || !strings.HasSuffix(prov, c.LoopFn) {
					continue
				}
				env := a.specEnv(st)
				a.siteN++
				name := fmt.Sprintf("%s/site close %s.%s#%d", a.prefix, c.LoopFn, c.Label, a.siteN)
				if v, err := env.evalBool(c.Expr); err != nil {
					vc.oblige(name, "site", a.props, c.Line, st.guard, "false", "contract error: "+err.Error()+" in: "+c.Text)
				} else {
					vc.oblige(name, "site", a.props, a.pos(pos)+" ["+c.Line+"]", st.guard, v, "when "+c.LoopFn+" is closed: "+c.Text)
				}
			}
		}
		k, hs := "G:chanclosed", "(Array Int Bool)"
		vc.oblige(a.oblName("nopanic-close"), "nopanic", a.props, a.pos(pos), st.guard, and(not(eq(ch.S, "0")), not(sel(vc.getHeap(st, k, hs), ch.S))), "close of nil or already closed channel")
		vc.setHeap(st, k, hs, store(vc.getHeap(st, k, hs), ch.S, "true"))
		a.logHeapAt(k, ch.S)
		return Val{Sort: "Tuple"}
	case "panic":
		vc.oblige(a.oblName("nopanic-explicit"), "nopanic", a.props, a.pos(pos), st.guard, "false", "explicit panic unreachable")
		return Val{Sort: "Tuple"}
	case "recover":
		return a.zero(resT)
	case "print", "println":
		return Val{Sort: "Tuple"}
	case "ssa:wrapnilchk":
		return args[0]
	case "ssa:deferstack":
		return Val{S: "0", Sort: sInt, T: resT}
	case "new":
		addr := a.alloc(st, "new")
		et := deref(resT)
		a.storeAtQuiet(st, addr, et, a.zero(et))
		r := Val{S: addr, Sort: sInt, T: resT}
		a.zeroFacts(st, r, et)
		return r
	}
	vc.unsupported("builtin %s", f.Name())
	_ = g
	return a.freshVal("builtin", resT)
}

// elemKeys lists the heap keys (with sorts) that hold elements of type et, with the address mapping.
type elemKey struct {
	key, sort string
	addr      func(string) string
	zero      string
	path      []string // address functions from the element outwards
}

// regionMember over-approximates "x is the location (for this key) of some element of array arr".
func (g *Globals) regionMember(x, arr string, path []string) string {
	var conds []string
	cur := x
	for i := len(path) - 1; i >= 0; i-- {
		conds = append(conds, fmt.Sprintf("(= (tag %s) %d)", cur, g.fldTag[path[i]]))
		cur = "(" + path[i] + "_inv " + cur + ")"
	}
	conds = append(conds, "(= (tag "+cur+") 1)", "(= (elem_arr "+cur+") "+arr+")")
	return and(conds...)
}

func (a *Act) elemKeys(et types.Type) []elemKey {
	g := a.vc.g
	var out []elemKey
	var rec func(t types.Type, addr func(string) string, path []string)
	rec = func(t types.Type, addr func(string) string, path []string) {
		if si := g.structInfoOf(t); si != nil {
			if _, isTP := isTypeParam(t); !isTP {
				for i, f := range si.Fields {
					if g.structInfoOf(f.T) != nil {
						fn := g.fldFn(si, i)
						rec(f.T, func(x string) string { return app(fn, addr(x)) }, append(append([]string(nil), path...), fn))
					} else {
						k, s := g.fieldHeapKey(si, i)
						out = append(out, elemKey{k, s, addr, a.zero(f.T).S, path})
					}
				}
				return
			}
		}
		k, s := memKey(g.sortOf(t))
		out = append(out, elemKey{k, s, addr, a.zero(t).S, path})
	}
	rec(et, func(x string) string { return x }, nil)
	return out
}

// copyElems models copy(dst, src) for n elements.
func (a *Act) copyElems(st *State, dst, src Val, n string, et types.Type) {
	vc := a.vc
	if src.Sort == sStr {
		a.havocRegion(st, "(sl_arr "+dst.S+")", et)
		return
	}
	d := vc.define("cd", sSlice, dst.S)
	s := vc.define("cs", sSlice, src.S)
	for _, ek := range a.elemKeys(et) {
		old := vc.getHeap(st, ek.key, ek.sort)
		nh := vc.fresh("Hc_"+ek.key, ek.sort)
		// copied range
		vc.assume(st.guard, fmt.Sprintf("(forall ((i Int)) (! (=> (and (<= 0 i) (< i %s)) (= (select %s %s) (select %s %s))) :pattern ((select %s %s))))",
			n, nh, ek.addr(fmt.Sprintf("(selem %s i)", d)), old, ek.addr(fmt.Sprintf("(selem %s i)", s)),
			nh, ek.addr(fmt.Sprintf("(selem %s i)", d))))
		// frame: locations that are not elements of the destination array are unchanged
		vc.assume(st.guard, fmt.Sprintf("(forall ((x Int)) (! (=> (not %s) (= (select %s x) (select %s x))) :pattern ((select %s x))))", vc.g.regionMember("x", "(sl_arr "+d+")", ek.path), nh, old, nh))
		st.heap[ek.key] = nh
		a.logHeap(ek.key)
	}
}

// appendOp models append(s, elems...) where the second argument is a slice (or string).
// The result always uses a fresh backing array (aliasing of in-place growth is not modelled).
func (a *Act) appendOp(st *State, args []Val, resT types.Type, pos token.Pos) Val {
	vc := a.vc
	s := args[0]
	et := resT.Underlying().(*types.Slice).Elem()
	if len(args) < 2 {
		return s
	}
	add := args[1]
	sd := vc.define("aps", sSlice, s.S)
	var addLen string
	if add.Sort == sStr {
		addLen = app("strlen", add.S)
	} else {
		add.S = vc.define("apa", sSlice, add.S)
		addLen = "(sl_len " + add.S + ")"
	}
	arr := a.alloc(st, "append")
	nl := vc.define("aplen", sInt, fmt.Sprintf("(+ (sl_len %s) %s)", sd, addLen))
	ncap := vc.fresh("apcap", sInt)
	vc.assume("true", "(>= "+ncap+" "+nl+")")
	res := Val{S: fmt.Sprintf("(mk_Slice %s 0 %s %s)", arr, nl, ncap), Sort: sSlice, T: resT}
	// contents of the fresh array in the current heap: prefix from s, suffix from add
	for _, ek := range a.elemKeys(et) {
		H := vc.getHeap(st, ek.key, ek.sort)
		at := func(arrT, idx string) string { return sel(H, ek.addr(fmt.Sprintf("(elem %s %s)", arrT, idx))) }
		// absolute index j into the fresh array; no arithmetic inside the patterns
		vc.assume(st.guard, fmt.Sprintf("(forall ((j Int)) (! (=> (and (<= 0 j) (< j (sl_len %s))) (= %s %s)) :pattern (%s)))",
			sd, at(arr, "j"), sel(H, ek.addr(fmt.Sprintf("(selem %s j)", sd))), at(arr, "j")))
		if add.Sort != sStr {
			vc.assume(st.guard, fmt.Sprintf("(forall ((j Int)) (! (=> (and (<= (sl_len %s) j) (< j %s)) (= %s %s)) :pattern (%s)))",
				sd, nl, at(arr, "j"), sel(H, ek.addr(fmt.Sprintf("(selem %s (- j (sl_len %s)))", add.S, sd))), at(arr, "j")))
		}
	}
	return res
}

// ---- channels ----

func (a *Act) chanKey(chv ssa.Value) string {
	// identify the channel by the struct field or parameter it was read from
	switch x := chv.(type) {
	case *ssa.UnOp:
		if x.Op == token.MUL {
			switch fa := x.X.(type) {
			case *ssa.FieldAddr:
				t := deref(fa.X.Type())
				st := t.Underlying().(*types.Struct)
				return a.fieldKey(t, st.Field(fa.Field).Name())
			case *ssa.Alloc:
				// local variable / spilled parameter
				return fnKey(a.fn) + "." + fa.Comment
			}
		}
	case *ssa.Field:
		t := x.X.Type()
		st := t.Underlying().(*types.Struct)
		return a.fieldKey(t, st.Field(x.Field).Name())
	case *ssa.Parameter:
		return fnKey(a.fn) + "." + x.Name()
	case *ssa.Call:
		// channel obtained from an interface method (e.g. broadcaster.OutgoingPrevoteProofs())
		if x.Call.IsInvoke() {
			return ifaceKey(x.Call.Value.Type(), x.Call.Method.Name())
		}
		if sc := x.Call.StaticCallee(); sc != nil {
			return fnKey(sc)
		}
	case *ssa.ChangeType:
		return a.chanKey(x.X)
	case *ssa.Phi:
		for _, e := range x.Edges {
			if k := a.chanKey(e); k != "" {
				return k
			}
		}
	}
	return ""
}

func (a *Act) chanInvFor(chv ssa.Value) *ChanInv {
	k := a.chanKey(chv)
	if k == "" {
		return nil
	}
	return a.eng.chaninvs[k]
}

func (a *Act) chanSend(st *State, ch, v Val, chv ssa.Value, pos token.Pos) {
	ci := a.chanInvFor(chv)
	top := a.top
	if top == nil {
		top = a
	}
	if top.sends != nil {
		*top.sends = append(*top.sends, a.chanKey(chv))
	}
	defer a.countSend(st, a.chanKey(chv))
	// site send <channel>: assertion on the value sent at this site (sentValue names it); per-function, unlike a chaninv
	if a.con != nil && !a.inlined && a.vc.quiet == 0 {
		ck := a.chanKey(chv)
		for _, c := range a.con.Sites {
			if c.Kind != "site-send" || !strings.HasSuffix(ck, c.LoopFn) {
				continue
			}
			env := a.specEnv(st)
			env.vars["sentValue"] = v
			a.siteN++
			name := fmt.Sprintf("%s/site send %s.%s#%d", a.prefix, c.LoopFn, c.Label, a.siteN)
			if sv, err := env.evalBool(c.Expr); err != nil {
				a.vc.oblige(name, "site", a.props, c.Line, st.guard, "false", "contract error: "+err.Error()+" in: "+c.Text)
			} else {
				a.vc.oblige(name, "site", a.props, a.pos(pos)+" ["+c.Line+"]", st.guard, sv, "at the send on "+c.LoopFn+": "+c.Text)
			}
		}
	}
	if ci == nil {
		return
	}
	env := a.specEnv(st)
	env.vars[ci.Var] = v
	env.pkg = a.eng.pkgByPath[ci.Pkg]
	s, err := env.evalBool(ci.Expr)
	name := a.oblName("chan-send " + shortName(a.chanKey(chv)))
	if err != nil {
		a.vc.oblige(name, "chan-send", a.props, a.pos(pos), st.guard, "false", "contract error in chaninv: "+err.Error())
		return
	}
	n0 := len(a.vc.obls)
	a.vc.oblige(name, "chan-send", a.props, a.pos(pos), st.guard, s, "channel invariant on send: "+ci.Text)
	if len(a.vc.obls) > n0 && len(ci.OnlyProps) > 0 {
		a.vc.obls[len(a.vc.obls)-1].OnlyProps = ci.OnlyProps
	}
}

// countSend increments the engine ghost nsent(<channel key>): the number of values sent on that channel.
func (a *Act) countSend(st *State, key string) {
	if key == "" {
		return
	}
	id := a.eng.chanID(key)
	k, hs := "G:nsent", "(Array Int Int)"
	H := a.vc.getHeap(st, k, hs)
	a.vc.setHeap(st, k, hs, store(H, id, "(+ 1 "+sel(H, id)+")"))
	a.logHeapAt(k, id)
}

func (a *Act) chanRecv(st *State, ch Val, commaOk bool, chv ssa.Value, pos token.Pos) Val {
	et := ch.T.Underlying().(*types.Chan).Elem()
	v := a.freshVal("recv", et)
	ok := a.vc.fresh("recvok", sBool)
	if ci := a.chanInvFor(chv); ci != nil {
		env := a.specEnv(st)
		env.vars[ci.Var] = v
		env.pkg = a.eng.pkgByPath[ci.Pkg]
		if s, err := env.evalBool(ci.Expr); err == nil {
			a.vc.assume(st.guard, implies(ok, s))
		}
	}
	if commaOk {
		return Val{Tup: []Val{v, {S: ok, Sort: sBool, T: types.Typ[types.Bool]}}, Sort: "Tuple"}
	}
	// a closed channel yields the zero value
	z := a.zero(et)
	v.S = a.vc.define("rv", v.Sort, ite(ok, v.S, z.S))
	return v
}

func (a *Act) selectOp(st *State, x *ssa.Select) Val {
	vc := a.vc
	idx := vc.fresh("selidx", sInt)
	lo := "0"
	if !x.Blocking {
		lo = "(- 1)"
	}
	vc.assume("true", fmt.Sprintf("(and (<= %s %s) (< %s %d))", lo, idx, idx, len(x.States)))
	recvOk := vc.fresh("selok", sBool)
	tup := []Val{{S: idx, Sort: sInt, T: types.Typ[types.Int]}, {S: recvOk, Sort: sBool, T: types.Typ[types.Bool]}}
	for i, s := range x.States {
		ch := a.val(st, s.Chan)
		a.chanTypeFact(st, ch)
		chosen := eq(idx, fmt.Sprint(i))
		// nil channels are never ready
		vc.assume(st.guard, implies(chosen, not(eq(ch.S, "0"))))
		if s.Dir == types.SendOnly {
			v := a.val(st, s.Send)
			es := st.clone()
			es.guard = vc.define("selg", sBool, and(st.guard, chosen))
			a.chanSend(es, ch, v, s.Chan, s.Pos)
		} else {
			et := ch.T.Underlying().(*types.Chan).Elem()
			v := a.freshVal("selrecv", et)
			// a receive that yields no value (ok == false) happens on a closed channel only
			vc.assume(st.guard, implies(and(chosen, not(recvOk)), sel(vc.getHeap(st, "G:chanclosed", "(Array Int Bool)"), ch.S)))
			if ci := a.chanInvFor(s.Chan); ci != nil {
				env := a.specEnv(st)
				env.vars[ci.Var] = v
				env.pkg = a.eng.pkgByPath[ci.Pkg]
				if sx, err := env.evalBool(ci.Expr); err == nil {
					vc.assume(st.guard, implies(and(chosen, recvOk), sx))
				}
			}
			z := a.zero(et)
			v.S = vc.define("selrv", v.Sort, ite(recvOk, v.S, z.S))
			tup = append(tup, v)
		}
	}
	return Val{Tup: tup, Sort: "Tuple", T: x.Type()}
}

func isRepoPath(p, mod string) bool { return strings.HasPrefix(p, mod) }
