package main

import (
	"sort"
	"bytes"
	"context"
	"encoding/json"
	"fmt"
	"go/types"
	"math/big"
	"os"
	"os/exec"
	"path/filepath"
	"strings"
	"time"
)

// tryReplay attempts to reproduce a counterexample on the real code.
// Generic route: functions whose parameters are all scalars (ints, bools, strings) and that have no receiver
// (or whose receiver is built by a registered template) are called in an in-package test injected with
// `go test -overlay`; the violated clause is then evaluated concretely on the observed results.
func tryReplay(e *Engine, o *Obl, model map[string]string, repo, dir string) (bool, string) {
	vc := o.vc
	if vc == nil || vc.fn == nil {
		return false, "replay: obligation is not attached to a function\n"
	}
	fn := vc.fn
	if ok, txt, handled := templateReplay(e, o, repo, dir); handled {
		return ok, txt
	}
	sig := fn.Signature
	if sig.Recv() != nil || fn.Parent() != nil || sig.TypeParams() != nil {
		return false, "replay: no template for methods/closures/generic functions; model values are in the solver output below\n"
	}
	var args []string
	vals := map[string]*big.Int{}
	var tr strings.Builder
	for _, p := range fn.Params {
		b, ok := p.Type().Underlying().(*types.Basic)
		if !ok {
			return false, "replay: non-scalar parameter " + p.Name() + "; model values are in the solver output below\n"
		}
		mv := ""
		for k, v := range model {
			if strings.HasPrefix(k, "p_"+sanitize(p.Name())+"!") {
				mv = v
			}
		}
		switch {
		case b.Info()&types.IsInteger != 0:
			if mv == "" {
				mv = "0"
			}
			n, ok := new(big.Int).SetString(mv, 10)
			if !ok {
				return false, "replay: cannot parse model value " + mv + "\n"
			}
			vals[p.Name()] = n
			args = append(args, fmt.Sprintf("%s(%s)", types.TypeString(p.Type(), types.RelativeTo(fn.Pkg.Pkg)), n.String()))
		case b.Info()&types.IsBoolean != 0:
			if mv == "" {
				mv = "false"
			}
			args = append(args, mv)
			if mv == "true" {
				vals[p.Name()] = big.NewInt(1)
			} else {
				vals[p.Name()] = big.NewInt(0)
			}
		case b.Info()&types.IsString != 0:
			args = append(args, `""`)
		default:
			return false, "replay: unsupported parameter type\n"
		}
		fmt.Fprintf(&tr, "model: %s = %s\n", p.Name(), mv)
	}
	nres := sig.Results().Len()
	var lhs []string
	for i := 0; i < nres; i++ {
		lhs = append(lhs, fmt.Sprintf("r%d", i))
	}
	call := fmt.Sprintf("%s(%s)", fn.Name(), strings.Join(args, ", "))
	if nres > 0 {
		call = strings.Join(lhs, ", ") + " := " + call
	}
	var pr strings.Builder
	for i := 0; i < nres; i++ {
		fmt.Fprintf(&pr, "\tfmt.Printf(\"GVC-RESULT %d %%v\\n\", r%d)\n", i, i)
	}
	src := fmt.Sprintf(`package %s

import (
	"fmt"
	"testing"
)

func TestGvcReplay(t *testing.T) {
	defer func() {
		if r := recover(); r != nil {
			fmt.Printf("GVC-PANIC %%v\n", r)
		}
	}()
	%s
%s}
`, fn.Pkg.Pkg.Name(), call, pr.String())
	out, err := runOverlayTest(repo, fn.Pkg.Pkg.Path(), e.modPath, src, dir, "TestGvcReplay")
	tr.WriteString("replay test:\n" + src + "\nreplay output:\n" + out + "\n")
	if err != nil {
		tr.WriteString("replay: test run failed: " + err.Error() + "\n")
	}
	panicked := strings.Contains(out, "GVC-PANIC")
	for _, l := range strings.Split(out, "\n") {
		if strings.HasPrefix(l, "GVC-RESULT ") {
			f := strings.Fields(l)
			if len(f) >= 3 {
				if n, ok := new(big.Int).SetString(f[2], 10); ok {
					vals["result"+f[1]] = n
					if f[1] == "0" {
						vals["result"] = n
					}
				} else if f[2] == "true" || f[2] == "false" {
					v := big.NewInt(0)
					if f[2] == "true" {
						v = big.NewInt(1)
					}
					vals["result"+f[1]] = v
					if f[1] == "0" {
						vals["result"] = v
					}
				}
			}
		}
	}
	switch o.Kind {
	case "nopanic":
		if panicked {
			tr.WriteString("replay: REPRODUCED (the real function panicked on the model input)\n")
			return true, tr.String()
		}
		tr.WriteString("replay: the real function did not panic on the model input\n")
		return false, tr.String()
	case "nowrap":
		// an arithmetic overflow is a violation when it makes a postcondition of the contract false on the real code
		if panicked || vc.act == nil || vc.act.con == nil {
			return false, tr.String()
		}
		for _, c := range vc.act.con.Ensures {
			ok, err := cevalBool(e, c.Expr, vals)
			if err == nil && !ok {
				tr.WriteString("replay: REPRODUCED (with the overflowing input the clause '" + c.Text + "' is false on the real function's result)\n")
				return true, tr.String()
			}
		}
		tr.WriteString("replay: all evaluable postconditions hold on the real function's result for this input\n")
		return false, tr.String()
	case "post":
		if o.Clause == nil {
			return false, tr.String()
		}
		if panicked {
			tr.WriteString("replay: the function panicked, postcondition not evaluated\n")
			return false, tr.String()
		}
		ok, err := cevalBool(e, o.Clause.Expr, vals)
		if err != nil {
			tr.WriteString("replay: cannot evaluate clause concretely: " + err.Error() + "\n")
			return false, tr.String()
		}
		if !ok {
			tr.WriteString("replay: REPRODUCED (clause '" + o.Clause.Text + "' is false on the real function's result)\n")
			return true, tr.String()
		}
		tr.WriteString("replay: clause holds on the real function's result for this model input\n")
		return false, tr.String()
	}
	return false, tr.String()
}

// templateReplay: /verif/replay/<pkg>.<Recv>.<Func>.tmpl holds a Go test with {{name}} placeholders and
// "//@ get name = <spec expr>" lines; the expressions are evaluated in the function's entry state, their values are
// requested from the solver for the counterexample, and the filled-in test runs on the real code.
// The test prints GVC-PANIC on a panic and GVC-VIOLATION when its own check of the property fails.
func templateReplay(e *Engine, o *Obl, repo, dir string) (bool, string, bool) {
	vc := o.vc
	key := shortName(fnKey(vc.fn))
	// most specific first: <key>@<substring of the obligation's last name segment>.tmpl, then <key>.tmpl
	var b []byte
	var err error = os.ErrNotExist
	last := o.Name[strings.LastIndex(o.Name, "/")+1:]
	if ms, _ := filepath.Glob(filepath.Join(verifDir, "replay", key+"@*.tmpl")); len(ms) > 0 {
		sort.Strings(ms)
		for _, m := range ms {
			sub := strings.TrimSuffix(strings.TrimPrefix(filepath.Base(m), key+"@"), ".tmpl")
			if strings.Contains(last, sub) {
				b, err = os.ReadFile(m)
				break
			}
		}
	}
	if err != nil {
		b, err = os.ReadFile(filepath.Join(verifDir, "replay", key+".tmpl"))
	}
	if err != nil || (vc.act == nil && strings.Contains(string(b), "//@ get ")) {
		return false, "", false
	}
	pkgPath := vc.fn.Pkg.Pkg.Path()
	var tr strings.Builder
	type getv struct{ name, term, sort, fact string }
	var gets []getv
	var body []string
	var env *SpecEnv
	if vc.act != nil {
		env = vc.act.specEnv(vc.act.entry)
		env.old = vc.act.entry
	}
	for _, l := range strings.Split(string(b), "\n") {
		t := strings.TrimSpace(l)
		if strings.HasPrefix(t, "//@ pkg ") {
			// run the test in another package directory of the module (e.g. an external test package with fixtures)
			pkgPath = e.modPath + "/" + strings.TrimSpace(t[8:])
			continue
		}
		if strings.HasPrefix(t, "//@ get ") {
			kv := strings.SplitN(t[8:], "=", 2)
			if len(kv) != 2 {
				continue
			}
			ex, err := parseSpecExpr(strings.TrimSpace(kv[1]))
			if err != nil {
				tr.WriteString("replay template: " + err.Error() + "\n")
				continue
			}
			v, err := env.evalVal(ex)
			if err != nil {
				tr.WriteString("replay template: " + err.Error() + "\n")
				continue
			}
			fact := "true"
			if v.T != nil {
				fact = e.g.rangeFact(v.T, v.S)
			}
			gets = append(gets, getv{strings.TrimSpace(kv[0]), v.S, v.Sort, fact})
			continue
		}
		body = append(body, l)
	}
	src := strings.Join(body, "\n")
	if len(gets) == 0 {
		// scenario template: a fixed adversarial scenario that checks the property on the real code
		out2, err := runOverlayTest(repo, pkgPath, e.modPath, src, dir, "TestGvcReplay")
		tr.WriteString("scenario replay test:\n" + src + "\nreplay output:\n" + out2 + "\n")
		if err != nil && !strings.Contains(out2, "GVC-") {
			tr.WriteString("replay: test run failed: " + err.Error() + "\n")
		}
		// a panic on another goroutine of the code under test (e.g. the kernel's main loop) kills the test binary
		crashed := strings.Contains(out2, "\npanic: ") && strings.Contains(out2, "\ngoroutine ")
		if strings.Contains(out2, "GVC-VIOLATION") || strings.Contains(out2, "GVC-PANIC") || crashed {
			tr.WriteString("replay: REPRODUCED (the scenario violates the property on the real code)\n")
			return true, tr.String(), true
		}
		tr.WriteString("replay: the scenario does not violate the property on the real code\n")
		return false, tr.String(), true
	}
	var terms []string
	for _, g := range gets {
		terms = append(terms, g.term)
	}
	script := o.scriptWith(true, true, "(get-value ("+strings.Join(terms, " ")+"))\n")
	if o.Result != "sat" {
		script = stripQuantified(script)
	}
	var extra strings.Builder
	for _, g := range gets {
		if g.fact != "true" {
			extra.WriteString("(assert " + g.fact + ")\n")
		}
	}
	if k := strings.LastIndex(script, "(check-sat)"); k >= 0 {
		script = script[:k] + extra.String() + script[k:]
	}
	f := filepath.Join(dir, sanitize(o.Name)+".getvalue.smt2")
	os.WriteFile(f, []byte(script), 0o644)
	res, out := "", ""
	// ask the solver that found the counterexample first, then the others
	order := append([]solverSpec(nil), solvers...)
	for i, sp := range order {
		if strings.HasPrefix(o.Solver, sp.name) && (sp.name != "z3" || !strings.HasPrefix(o.Solver, "z3-new")) {
			order[0], order[i] = order[i], order[0]
		}
	}
	for _, sp := range order {
		res, out, _ = runSolver(sp, f, 10)
		if res == "sat" {
			break
		}
	}
	if res != "sat" {
		tr.WriteString("replay: could not obtain counterexample values (" + res + ")\n")
		return false, tr.String(), true
	}
	vals := parseGetValue(out, len(gets))
	for i, g := range gets {
		v := "0"
		if i < len(vals) {
			v = vals[i]
		}
		switch g.sort {
		case sBool:
		case sInt:
		default:
			v = fmt.Sprintf("%q", v)
		}
		fmt.Fprintf(&tr, "model: %s = %s\n", g.name, v)
		src = strings.ReplaceAll(src, "{{"+g.name+"}}", v)
	}
	out2, err := runOverlayTest(repo, pkgPath, e.modPath, src, dir, "TestGvcReplay")
	tr.WriteString("replay test:\n" + src + "\nreplay output:\n" + out2 + "\n")
	if err != nil && !strings.Contains(out2, "GVC-") {
		tr.WriteString("replay: test run failed: " + err.Error() + "\n")
	}
	if o.Kind == "nopanic" && strings.Contains(out2, "GVC-PANIC") {
		tr.WriteString("replay: REPRODUCED (the real code panicked on the counterexample)\n")
		return true, tr.String(), true
	}
	if strings.Contains(out2, "GVC-VIOLATION") {
		tr.WriteString("replay: REPRODUCED (the template's check of the property failed on the real code)\n")
		return true, tr.String(), true
	}
	tr.WriteString("replay: the counterexample did not reproduce on the real code\n")
	return false, tr.String(), true
}

// parseGetValue parses "((t1 v1) (t2 v2) ...)" returning the values in order.
func parseGetValue(out string, n int) []string {
	i := strings.Index(out, "((")
	if i < 0 {
		return nil
	}
	s := out[i+1:]
	var vals []string
	depth := 0
	start := -1
	for j := 0; j < len(s) && len(vals) < n; j++ {
		switch s[j] {
		case '(':
			if depth == 0 {
				start = j
			}
			depth++
		case ')':
			depth--
			if depth == 0 && start >= 0 {
				pair := s[start+1 : j]
				vals = append(vals, lastSexp(pair))
				start = -1
			}
			if depth < 0 {
				return vals
			}
		}
	}
	return vals
}

// lastSexp returns the last s-expression of "term value" and normalises negative integers.
func lastSexp(pair string) string {
	pair = strings.TrimSpace(pair)
	var v string
	if strings.HasSuffix(pair, ")") {
		d := 0
		for k := len(pair) - 1; k >= 0; k-- {
			if pair[k] == ')' {
				d++
			} else if pair[k] == '(' {
				d--
				if d == 0 {
					v = pair[k:]
					break
				}
			}
		}
	} else {
		k := strings.LastIndexAny(pair, " \t\n")
		v = pair[k+1:]
	}
	if strings.HasPrefix(v, "(- ") {
		v = "-" + strings.TrimSuffix(v[3:], ")")
	}
	return v
}

// runOverlayTest injects src as an in-package test file via -overlay and runs it.
func runOverlayTest(repo, pkgPath, modPath, src, dir, run string) (string, error) {
	rel := strings.TrimPrefix(strings.TrimPrefix(pkgPath, modPath), "/")
	os.MkdirAll(dir, 0o755)
	testFile := filepath.Join(dir, "zz_gvc_replay_test.go")
	if err := os.WriteFile(testFile, []byte(src), 0o644); err != nil {
		return "", err
	}
	ov := map[string]any{"Replace": map[string]string{filepath.Join(repo, rel, "zz_gvc_replay_test.go"): testFile}}
	ob, _ := json.Marshal(ov)
	ovFile := filepath.Join(dir, "overlay.json")
	os.WriteFile(ovFile, ob, 0o644)
	ctx, cancel := context.WithTimeout(context.Background(), 180*time.Second)
	defer cancel()
	cmd := exec.CommandContext(ctx, "go", "test", "-overlay", ovFile, "-tags", "verif", "-vet=off", "-v", "-count=1", "-timeout", "60s", "-run", "^"+run+"$", "./"+rel)
	cmd.Dir = repo
	cmd.Env = append(os.Environ(), "GOFLAGS=-mod=mod", "GOPROXY=off")
	var buf bytes.Buffer
	cmd.Stdout = &buf
	cmd.Stderr = &buf
	err := cmd.Run()
	return buf.String(), err
}

// ---- concrete evaluation of integer/boolean spec expressions ----

func cevalBool(e *Engine, x SExpr, vals map[string]*big.Int) (bool, error) {
	v, err := ceval(e, x, vals)
	if err != nil {
		return false, err
	}
	return v.Sign() != 0, nil
}

func b2i(b bool) *big.Int {
	if b {
		return big.NewInt(1)
	}
	return big.NewInt(0)
}

func ceval(e *Engine, x SExpr, vals map[string]*big.Int) (*big.Int, error) {
	switch v := x.(type) {
	case SInt:
		n, _ := new(big.Int).SetString(v.V, 10)
		return n, nil
	case SBool:
		return b2i(v.V), nil
	case SIdent:
		if n, ok := vals[v.Name]; ok {
			return n, nil
		}
		switch v.Name {
		case "MAXU64":
			n, _ := new(big.Int).SetString("18446744073709551615", 10)
			return n, nil
		}
		return nil, fmt.Errorf("no concrete value for %s", v.Name)
	case SOld:
		return ceval(e, v.X, vals)
	case SUn:
		a, err := ceval(e, v.X, vals)
		if err != nil {
			return nil, err
		}
		if v.Op == "!" {
			return b2i(a.Sign() == 0), nil
		}
		return new(big.Int).Neg(a), nil
	case SIte:
		c, err := ceval(e, v.C, vals)
		if err != nil {
			return nil, err
		}
		if c.Sign() != 0 {
			return ceval(e, v.A, vals)
		}
		return ceval(e, v.B, vals)
	case SSel:
		// qualified constant pkg.Name
		name := selName(v)
		if i := strings.LastIndex(name, "."); i >= 0 {
			if p := e.findPkg(name[:i], nil); p != nil {
				if c, ok := p.Scope().Lookup(name[i+1:]).(*types.Const); ok {
					n, ok := new(big.Int).SetString(c.Val().ExactString(), 10)
					if ok {
						return n, nil
					}
				}
			}
		}
		return nil, fmt.Errorf("cannot evaluate %s", name)
	case SCall:
		if m, ok := e.macros[v.Fun]; ok && len(m.Params) == len(v.Args) {
			nv := map[string]*big.Int{}
			for k, x := range vals {
				nv[k] = x
			}
			for i, p := range m.Params {
				a, err := ceval(e, v.Args[i], vals)
				if err != nil {
					return nil, err
				}
				nv[p] = a
			}
			return ceval(e, m.Expr, nv)
		}
		return nil, fmt.Errorf("cannot evaluate call %s", v.Fun)
	case SBin:
		a, err := ceval(e, v.L, vals)
		if err != nil {
			return nil, err
		}
		// short-circuit
		switch v.Op {
		case "&&":
			if a.Sign() == 0 {
				return b2i(false), nil
			}
		case "||":
			if a.Sign() != 0 {
				return b2i(true), nil
			}
		case "==>":
			if a.Sign() == 0 {
				return b2i(true), nil
			}
		}
		b, err := ceval(e, v.R, vals)
		if err != nil {
			return nil, err
		}
		switch v.Op {
		case "&&", "||", "==>":
			return b2i(b.Sign() != 0), nil
		case "<==>":
			return b2i((a.Sign() != 0) == (b.Sign() != 0)), nil
		case "==":
			return b2i(a.Cmp(b) == 0), nil
		case "!=":
			return b2i(a.Cmp(b) != 0), nil
		case "<":
			return b2i(a.Cmp(b) < 0), nil
		case "<=":
			return b2i(a.Cmp(b) <= 0), nil
		case ">":
			return b2i(a.Cmp(b) > 0), nil
		case ">=":
			return b2i(a.Cmp(b) >= 0), nil
		case "+":
			return new(big.Int).Add(a, b), nil
		case "-":
			return new(big.Int).Sub(a, b), nil
		case "*":
			return new(big.Int).Mul(a, b), nil
		case "/":
			if b.Sign() == 0 {
				return nil, fmt.Errorf("division by zero")
			}
			q, _ := new(big.Int).DivMod(a, b, new(big.Int))
			return q, nil
		case "%":
			if b.Sign() == 0 {
				return nil, fmt.Errorf("division by zero")
			}
			_, m := new(big.Int).DivMod(a, b, new(big.Int))
			return m, nil
		}
	}
	return nil, fmt.Errorf("expression not concretely evaluable")
}
