package main

import (
	"fmt"
	"go/types"
	"regexp"
	"strings"
	"unicode"
)

// ---- spec expression AST ----

type SExpr interface{}

type (
	SIdent struct{ Name string }
	SInt   struct{ V string }
	SStr   struct{ V string }
	SBool  struct{ V bool }
	SNil   struct{}
	SBin   struct {
		Op   string
		L, R SExpr
	}
	SUn struct {
		Op string
		X  SExpr
	}
	SCall struct {
		Fun  string
		Args []SExpr
	}
	SSel struct {
		X    SExpr
		Name string
	}
	SIndex struct{ X, I SExpr }
	SSlice struct{ X, Lo, Hi SExpr }
	SQuant struct {
		Forall   bool
		Vars     []SVar
		Body     SExpr
		Triggers [][]SExpr
	}
	SOld struct{ X SExpr }
	SPre struct{ X SExpr } // value at the head of the enclosing loop iteration
	SOther struct{ X SExpr } // axioms only: evaluate in a second, independently quantified heap
	SIte struct{ C, A, B SExpr }
	SDeref struct{ X SExpr }
)

type SVar struct{ Name, Type string }

type tok struct {
	k string // ident, int, str, op, eof
	s string
}

func lexSpec(src string) ([]tok, error) {
	var toks []tok
	i := 0
	for i < len(src) {
		c := src[i]
		switch {
		case c == ' ' || c == '\t' || c == '\n':
			i++
		case unicode.IsLetter(rune(c)) || c == '_' || c == '$':
			j := i + 1
			for j < len(src) && (unicode.IsLetter(rune(src[j])) || unicode.IsDigit(rune(src[j])) || src[j] == '_' || src[j] == '$' || (src[j] == '#' && j+1 < len(src) && unicode.IsDigit(rune(src[j+1])))) {
				j++
			}
			toks = append(toks, tok{"ident", src[i:j]})
			i = j
		case c >= '0' && c <= '9':
			j := i + 1
			for j < len(src) && (src[j] >= '0' && src[j] <= '9' || src[j] == '_') {
				j++
			}
			toks = append(toks, tok{"int", strings.ReplaceAll(src[i:j], "_", "")})
			i = j
		case c == '"':
			j := i + 1
			var b strings.Builder
			for j < len(src) && src[j] != '"' {
				if src[j] == '\\' && j+1 < len(src) {
					j++
					switch src[j] {
					case 'n':
						b.WriteByte('\n')
					case 't':
						b.WriteByte('\t')
					default:
						b.WriteByte(src[j])
					}
				} else {
					b.WriteByte(src[j])
				}
				j++
			}
			if j >= len(src) {
				return nil, fmt.Errorf("unterminated string")
			}
			toks = append(toks, tok{"str", b.String()})
			i = j + 1
		default:
			ops := []string{"<==>", "==>", "::", "&&", "||", "==", "!=", "<=", ">=", "<", ">", "+", "-", "*", "/", "%", "!", "(", ")", "[", "]", ",", ".", ":", "?", "{", "}"}
			matched := false
			for _, op := range ops {
				if strings.HasPrefix(src[i:], op) {
					toks = append(toks, tok{"op", op})
					i += len(op)
					matched = true
					break
				}
			}
			if !matched {
				return nil, fmt.Errorf("unexpected character %q in %q", c, src)
			}
		}
	}
	toks = append(toks, tok{"eof", ""})
	return toks, nil
}

type sparser struct {
	toks []tok
	p    int
	src  string
}

func parseSpecExpr(src string) (e SExpr, err error) {
	toks, err := lexSpec(src)
	if err != nil {
		return nil, err
	}
	ps := &sparser{toks: toks, src: src}
	defer func() {
		if r := recover(); r != nil {
			if pe, ok := r.(parseErr); ok {
				err = fmt.Errorf("%s in %q", string(pe), src)
				return
			}
			panic(r)
		}
	}()
	e = ps.expr()
	if ps.peek().k != "eof" {
		ps.fail("trailing tokens at %q", ps.peek().s)
	}
	return e, nil
}

type parseErr string

func (ps *sparser) fail(f string, a ...any) { panic(parseErr(fmt.Sprintf(f, a...))) }
func (ps *sparser) peek() tok               { return ps.toks[ps.p] }
func (ps *sparser) next() tok               { t := ps.toks[ps.p]; ps.p++; return t }
func (ps *sparser) isOp(s string) bool      { t := ps.peek(); return t.k == "op" && t.s == s }
func (ps *sparser) isIdent(s string) bool   { t := ps.peek(); return t.k == "ident" && t.s == s }
func (ps *sparser) expectOp(s string) {
	if !ps.isOp(s) {
		ps.fail("expected %q, got %q", s, ps.peek().s)
	}
	ps.p++
}

func (ps *sparser) expr() SExpr { return ps.iff() }

func (ps *sparser) iff() SExpr {
	l := ps.impl()
	for ps.isOp("<==>") {
		ps.p++
		r := ps.impl()
		l = SBin{"<==>", l, r}
	}
	return l
}

func (ps *sparser) impl() SExpr {
	l := ps.tern()
	if ps.isOp("==>") {
		ps.p++
		r := ps.impl()
		return SBin{"==>", l, r}
	}
	return l
}

func (ps *sparser) tern() SExpr {
	c := ps.orE()
	if ps.isOp("?") {
		ps.p++
		a := ps.tern()
		ps.expectOp(":")
		b := ps.tern()
		return SIte{c, a, b}
	}
	return c
}

func (ps *sparser) orE() SExpr {
	l := ps.andE()
	for ps.isOp("||") {
		ps.p++
		l = SBin{"||", l, ps.andE()}
	}
	return l
}

func (ps *sparser) andE() SExpr {
	l := ps.cmp()
	for ps.isOp("&&") {
		ps.p++
		l = SBin{"&&", l, ps.cmp()}
	}
	return l
}

func (ps *sparser) cmp() SExpr {
	l := ps.add()
	for {
		t := ps.peek()
		if t.k == "op" && (t.s == "==" || t.s == "!=" || t.s == "<" || t.s == "<=" || t.s == ">" || t.s == ">=") {
			ps.p++
			r := ps.add()
			l = SBin{t.s, l, r}
			continue
		}
		if t.k == "ident" && t.s == "in" {
			ps.p++
			r := ps.add()
			l = SBin{"in", l, r}
			continue
		}
		return l
	}
}

func (ps *sparser) add() SExpr {
	l := ps.mul()
	for ps.isOp("+") || ps.isOp("-") {
		op := ps.next().s
		l = SBin{op, l, ps.mul()}
	}
	return l
}

func (ps *sparser) mul() SExpr {
	l := ps.unary()
	for ps.isOp("*") || ps.isOp("/") || ps.isOp("%") {
		op := ps.next().s
		l = SBin{op, l, ps.unary()}
	}
	return l
}

func (ps *sparser) unary() SExpr {
	if ps.isOp("!") {
		ps.p++
		return SUn{"!", ps.unary()}
	}
	if ps.isOp("-") {
		ps.p++
		return SUn{"-", ps.unary()}
	}
	if ps.isOp("*") {
		ps.p++
		return SDeref{ps.unary()}
	}
	return ps.postfix()
}

func (ps *sparser) postfix() SExpr {
	x := ps.primary()
	for {
		switch {
		case ps.isOp("."):
			ps.p++
			t := ps.next()
			if t.k != "ident" && t.k != "int" {
				ps.fail("expected field name after '.'")
			}
			x = SSel{x, t.s}
		case ps.isOp("["):
			ps.p++
			if ps.isOp(":") {
				ps.p++
				hi := ps.expr()
				ps.expectOp("]")
				x = SSlice{x, nil, hi}
				continue
			}
			i := ps.expr()
			if ps.isOp(":") {
				ps.p++
				var hi SExpr
				if !ps.isOp("]") {
					hi = ps.expr()
				}
				ps.expectOp("]")
				x = SSlice{x, i, hi}
				continue
			}
			ps.expectOp("]")
			x = SIndex{x, i}
		case ps.isOp("("):
			// call: only on identifiers / selector chains
			name := selName(x)
			if name == "" {
				ps.fail("call of non-identifier")
			}
			ps.p++
			var args []SExpr
			for !ps.isOp(")") {
				args = append(args, ps.expr())
				if ps.isOp(",") {
					ps.p++
				}
			}
			ps.expectOp(")")
			if name == "old" && len(args) == 1 {
				x = SOld{args[0]}
			} else if name == "pre" && len(args) == 1 {
				x = SPre{args[0]}
			} else if name == "other" && len(args) == 1 {
				x = SOther{args[0]}
			} else {
				x = SCall{name, args}
			}
		default:
			return x
		}
	}
}

func selName(x SExpr) string {
	switch v := x.(type) {
	case SIdent:
		return v.Name
	case SSel:
		b := selName(v.X)
		if b == "" {
			return ""
		}
		return b + "." + v.Name
	}
	return ""
}

func (ps *sparser) primary() SExpr {
	t := ps.next()
	switch t.k {
	case "int":
		return SInt{t.s}
	case "str":
		return SStr{t.s}
	case "ident":
		switch t.s {
		case "true":
			return SBool{true}
		case "false":
			return SBool{false}
		case "nil":
			return SNil{}
		case "forall", "exists":
			var vars []SVar
			for {
				n := ps.next()
				if n.k != "ident" {
					ps.fail("expected quantified variable name")
				}
				ty := ps.typeStr()
				vars = append(vars, SVar{n.s, ty})
				if ps.isOp(",") {
					ps.p++
					continue
				}
				break
			}
			ps.expectOp("::")
			var trigs [][]SExpr
			for ps.isOp("{") {
				ps.p++
				var grp []SExpr
				for !ps.isOp("}") {
					grp = append(grp, ps.expr())
					if ps.isOp(",") {
						ps.p++
					}
				}
				ps.expectOp("}")
				trigs = append(trigs, grp)
			}
			body := ps.expr()
			return SQuant{t.s == "forall", vars, body, trigs}
		}
		return SIdent{t.s}
	case "op":
		if t.s == "(" {
			e := ps.expr()
			ps.expectOp(")")
			return e
		}
	}
	ps.fail("unexpected token %q", t.s)
	return nil
}

// typeStr reads a type expression up to '::' or ',' at depth 0 and returns it as text.
func (ps *sparser) typeStr() string {
	var b strings.Builder
	depth := 0
	for {
		t := ps.peek()
		if t.k == "eof" {
			break
		}
		if t.k == "op" && depth == 0 && (t.s == "::" || t.s == ",") {
			break
		}
		if t.k == "op" && (t.s == "[" || t.s == "(") {
			depth++
		}
		if t.k == "op" && (t.s == "]" || t.s == ")") {
			depth--
		}
		b.WriteString(t.s)
		ps.p++
	}
	return b.String()
}

// ---- contract files ----

type Clause struct {
	Kind  string // requires, ensures, modifies, invariant, assert, panics_if
	Label string
	Text  string
	Expr  SExpr
	Loop  int
	Line  string // file:line
	Props []string
	Except []string // modifies memory except T1 T2: struct types whose fields are preserved
	LoopFn string   // loop callee.N invariant: the loop belongs to the (inlined) callee of that name
}

type Contract struct {
	Relies   []*Clause // rely after <channel>: assumptions about what the responder of a ReqResp filled in
	Sites    []*Clause // site assertions: "site mapstore <local>: expr" - obligation at every store into that local map
	Key      string   // pkgpath.Recv.Name or pkgpath.Name
	Params   []string // optional explicit parameter names (receiver first)
	Props    []string
	Requires []*Clause
	Assumes  []*Clause // "assumes label: e": assumed at entry of the body, NOT an obligation of callers; listed as an unchecked assumption
	Ensures  []*Clause
	Modifies []*Clause
	Invs     []*Clause
	Hints    []*Clause // proved (and then assumed) at the back edges of a loop, before the invariants
	PanicsIf []*Clause
	Opts     map[string]string
	Trusted  bool // prelude / assumed contract
	File     string
	Pure     bool
	Inline   bool
	Iface    bool
	// represents clauses (model field coupling) assumed at entry and re-established at exit
	Represents []*Clause
	// establishes clauses: model fields of a newly created object (result), set at exit only
	Establishes []*Clause
}

type SpecFn struct {
	Name   string
	Params []SVar
	Result string // type string
	Heaps  []string // resolved heap keys
	HeapSorts []string
	Reads  []string // as written: pkg.Type.field
	resolved bool
	pkg    *types.Package
}

type Ghost struct {
	Name    string
	KeySort string
	ValSort string // SMT sort
	ValType string
}

type Axiom struct {
	Name string
	Text string
	Expr SExpr
	Uses []string
	File string
	Pkg  string
}

var withoutRe = regexp.MustCompile(`^([\w#-]+)\s*\(without ([^)]*)\)\s*:`)

type Lemma struct {
	Without []string
	Name  string
	Props []string
	Text  string
	Expr  SExpr
	File  string
	Pkg   string
}

type ChanInv struct {
	OnlyProps []string // chaninv[Cxx] ...: the send obligations belong to these properties only
	Key   string // pkgpath.Type.Field or element type key
	Var   string
	Text  string
	Expr  SExpr
	Props []string
	Pkg   string
}

type SpecFile struct {
	Pkg       string // package path the file belongs to ("" for prelude)
	Contracts []*Contract
	SpecFns   []*SpecFn
	Ghosts    []*Ghost
	Axioms    []*Axiom
	Lemmas    []*Lemma
	ChanInvs  []*ChanInv
	Defs      map[string]*Macro
}

type Macro struct {
	Name   string
	Params []string
	Text   string
	Expr   SExpr
	PkgPath string // defining package: names inside the macro body resolve there
}

var clauseKw = map[string]bool{"requires": true, "ensures": true, "modifies": true, "loop": true, "panics_if": true,
	"property": true, "option": true, "site": true, "rely": true, "represents": true, "establishes": true, "trusted": true, "pure": true, "inline": true, "assumes": true}

// parseSpecFile parses the //@ lines of a contract file.
func parseSpecFile(path, text, pkg string, trusted bool) (*SpecFile, error) {
	sf := &SpecFile{Pkg: pkg, Defs: map[string]*Macro{}}
	type ln struct {
		n int
		s string
	}
	var lines []ln
	for i, raw := range strings.Split(text, "\n") {
		s := strings.TrimSpace(raw)
		if strings.HasPrefix(s, "//@") {
			s = strings.TrimSpace(s[3:])
		} else if strings.HasSuffix(path, ".spec") {
			if strings.HasPrefix(s, "#") {
				continue
			}
		} else {
			continue
		}
		if s == "" {
			continue
		}
		// strip trailing comment
		if k := strings.Index(s, " // "); k >= 0 {
			s = strings.TrimSpace(s[:k])
		}
		lines = append(lines, ln{i + 1, s})
	}
	// join continuation lines: a line that doesn't start with a keyword continues the previous.
	topKw := map[string]bool{"func": true, "iface": true, "spec": true, "ghost": true, "axiom": true, "lemma": true, "chaninv": true, "define": true, "zero": true, "guarded": true}
	var joined []ln
	for _, l := range lines {
		first := l.s
		if k := strings.IndexAny(first, " \t(["); k >= 0 {
			first = first[:k]
		}
		if topKw[first] || clauseKw[first] {
			joined = append(joined, l)
		} else if len(joined) > 0 {
			joined[len(joined)-1].s += " " + l.s
		} else {
			return nil, fmt.Errorf("%s:%d: continuation without clause", path, l.n)
		}
	}
	var cur *Contract
	var fileProps []string
	for _, l := range joined {
		loc := fmt.Sprintf("%s:%d", path, l.n)
		kw, rest := splitKw(l.s)
		var cprops []string
		// allow requires[C01,C02] style property tags
		if i := strings.Index(kw, "["); i >= 0 && strings.HasSuffix(kw, "]") {
			cprops = strings.Split(kw[i+1:len(kw)-1], ",")
			kw = kw[:i]
		}
		switch kw {
		case "func", "iface":
			cur = &Contract{Opts: map[string]string{}, Trusted: trusted, File: path, Iface: kw == "iface", Props: append([]string(nil), fileProps...)}
			name := rest
			if i := strings.Index(rest, "("); i >= 0 {
				name = strings.TrimSpace(rest[:i])
				ps := strings.TrimSuffix(strings.TrimSpace(rest[i+1:]), ")")
				for _, p := range strings.Split(ps, ",") {
					p = strings.TrimSpace(p)
					if p != "" {
						cur.Params = append(cur.Params, p)
					}
				}
			}
			if pkg != "" && !strings.Contains(name, "/") && strings.Count(name, ".") <= 1 && !strings.HasPrefix(name, "std:") {
				name = pkg + "." + name
			}
			name = strings.TrimPrefix(name, "std:")
			cur.Key = name
			sf.Contracts = append(sf.Contracts, cur)
		case "property":
			ps := strings.Fields(strings.ReplaceAll(rest, ",", " "))
			if cur == nil {
				fileProps = ps
			} else {
				cur.Props = ps
			}
		case "option":
			if cur == nil {
				return nil, fmt.Errorf("%s: option outside func", loc)
			}
			k, v := splitKw(rest)
			cur.Opts[k] = v
		case "trusted":
			if cur != nil {
				cur.Trusted = true
			}
		case "pure":
			if cur != nil {
				cur.Pure = true
			}
		case "inline":
			if cur != nil {
				cur.Inline = true
			}
		case "requires", "assumes", "ensures", "panics_if", "represents", "establishes":
			if cur == nil {
				return nil, fmt.Errorf("%s: clause outside func", loc)
			}
			label, body := splitLabel(rest)
			e, err := parseSpecExpr(body)
			if err != nil {
				return nil, fmt.Errorf("%s: %v", loc, err)
			}
			c := &Clause{Kind: kw, Label: label, Text: body, Expr: e, Line: loc, Props: cprops}
			switch kw {
			case "requires":
				cur.Requires = append(cur.Requires, c)
			case "assumes":
				cur.Assumes = append(cur.Assumes, c)
			case "ensures":
				cur.Ensures = append(cur.Ensures, c)
			case "panics_if":
				cur.PanicsIf = append(cur.PanicsIf, c)
			case "represents":
				cur.Represents = append(cur.Represents, c)
			case "establishes":
				cur.Establishes = append(cur.Establishes, c)
			}
		case "rely":
			// rely after <request channel key> label: expr -- assumed right after a gchan.ReqResp on that channel returns ok:
			// what the responding goroutine guarantees about memory it filled in (listed as an assumption; the guarantee is
			// an obligation of the responder's contract where one exists)
			if cur == nil {
				return nil, fmt.Errorf("%s: clause outside func", loc)
			}
			f := strings.Fields(rest)
			if len(f) < 3 || f[0] != "after" {
				return nil, fmt.Errorf("%s: expected 'rely after <channel> label: expr'", loc)
			}
			target := f[1]
			body := strings.TrimSpace(strings.SplitN(rest, target, 2)[1])
			label, body := splitLabel(body)
			e, err := parseSpecExpr(body)
			if err != nil {
				return nil, fmt.Errorf("%s: %v", loc, err)
			}
			cur.Relies = append(cur.Relies, &Clause{Kind: "rely", Label: label, Text: body, Expr: e, Line: loc, LoopFn: target})
		case "site":
			// site mapstore <local> [label]: expr  -- assertion at every map store into the local variable <local>
			if cur == nil {
				return nil, fmt.Errorf("%s: clause outside func", loc)
			}
			f := strings.Fields(rest)
			if len(f) < 3 || (f[0] != "mapstore" && f[0] != "reqresp" && f[0] != "close" && f[0] != "send") {
				return nil, fmt.Errorf("%s: expected 'site mapstore <local> label: expr' or 'site reqresp <channel> label: expr'", loc)
			}
			target := f[1]
			body := strings.TrimSpace(strings.SplitN(rest, target, 2)[1])
			label, body := splitLabel(body)
			e, err := parseSpecExpr(body)
			if err != nil {
				return nil, fmt.Errorf("%s: %v", loc, err)
			}
			cur.Sites = append(cur.Sites, &Clause{Kind: "site-" + f[0], Label: label, Text: body, Expr: e, Line: loc, Props: cprops, LoopFn: target})
		case "modifies":
			if cur == nil {
				return nil, fmt.Errorf("%s: clause outside func", loc)
			}
			for _, part := range splitTop(rest, ',') {
				part = strings.TrimSpace(part)
				if part == "" {
					continue
				}
				c := &Clause{Kind: "modifies", Text: part, Line: loc}
				if strings.HasPrefix(part, "ghost ") {
					// modifies ghost <name>: the whole ghost heap may change
					c.LoopFn = strings.TrimSpace(strings.TrimPrefix(part, "ghost "))
					c.Text, part = "ghost", "nothing"
					c.Label = "ghost"
					cur.Modifies = append(cur.Modifies, c)
					continue
				}
				if strings.HasPrefix(part, "memory except ") {
					c.Except = strings.Fields(strings.TrimPrefix(part, "memory except "))
					c.Text, part = "memory", "memory"
				}
				if part != "nothing" && part != "heap" && part != "memory" && !strings.HasSuffix(part, "[*]") && !strings.HasPrefix(part, "*") {
					e, err := parseSpecExpr(part)
					if err != nil {
						return nil, fmt.Errorf("%s: %v", loc, err)
					}
					c.Expr = e
				} else if strings.HasSuffix(part, "[*]") {
					e, err := parseSpecExpr(strings.TrimSuffix(part, "[*]"))
					if err != nil {
						return nil, fmt.Errorf("%s: %v", loc, err)
					}
					c.Expr = e
					c.Label = "all-elems"
				} else if strings.HasPrefix(part, "*") {
					e, err := parseSpecExpr(strings.TrimPrefix(part, "*"))
					if err != nil {
						return nil, fmt.Errorf("%s: %v", loc, err)
					}
					c.Expr = e
					c.Label = "all-fields"
				}
				cur.Modifies = append(cur.Modifies, c)
			}
		case "loop":
			if cur == nil {
				return nil, fmt.Errorf("%s: clause outside func", loc)
			}
			// loop N invariant [label:] expr
			var n int
			var k2 string
			f := strings.Fields(rest)
			if len(f) < 3 {
				return nil, fmt.Errorf("%s: bad loop clause", loc)
			}
			loopFn := ""
			if i := strings.LastIndex(f[0], "."); i >= 0 {
				// loop callee.N: loop N of a callee that is inlined into this function
				loopFn = f[0][:i]
				fmt.Sscanf(f[0][i+1:], "%d", &n)
			} else {
				fmt.Sscanf(f[0], "%d", &n)
			}
			k2 = f[1]
			body := strings.TrimSpace(strings.SplitN(rest, k2, 2)[1])
			if k2 != "invariant" && k2 != "hint" {
				return nil, fmt.Errorf("%s: expected 'invariant' or 'hint'", loc)
			}
			label, body := splitLabel(body)
			e, err := parseSpecExpr(body)
			if err != nil {
				return nil, fmt.Errorf("%s: %v", loc, err)
			}
			if k2 == "hint" {
				cur.Hints = append(cur.Hints, &Clause{Kind: "hint", Label: label, Text: body, Expr: e, Loop: n, Line: loc, LoopFn: loopFn})
			} else {
				cur.Invs = append(cur.Invs, &Clause{Kind: "invariant", Label: label, Text: body, Expr: e, Loop: n, Line: loc, Props: cprops, LoopFn: loopFn})
			}
		case "spec":
			// spec name(a T, b U) R
			cur = nil
			i := strings.Index(rest, "(")
			j := matchParen(rest, i)
			if i < 0 || j < 0 {
				return nil, fmt.Errorf("%s: bad spec decl", loc)
			}
			fn := &SpecFn{Name: strings.TrimSpace(rest[:i]), Result: strings.TrimSpace(rest[j+1:])}
			if k := strings.Index(fn.Result, " reads "); k >= 0 {
				for _, r := range strings.Split(fn.Result[k+7:], ",") {
					if r = strings.TrimSpace(r); r != "" {
						fn.Reads = append(fn.Reads, r)
					}
				}
				fn.Result = strings.TrimSpace(fn.Result[:k])
			}
			for _, p := range splitTop(rest[i+1:j], ',') {
				p = strings.TrimSpace(p)
				if p == "" {
					continue
				}
				n, t := splitKw(p)
				fn.Params = append(fn.Params, SVar{n, t})
			}
			sf.SpecFns = append(sf.SpecFns, fn)
		case "ghost":
			// ghost name(ref) T      -- a ghost field indexed by reference
			cur = nil
			i := strings.Index(rest, "(")
			j := matchParen(rest, i)
			if i < 0 || j < 0 {
				return nil, fmt.Errorf("%s: bad ghost decl", loc)
			}
			sf.Ghosts = append(sf.Ghosts, &Ghost{Name: strings.TrimSpace(rest[:i]), KeySort: strings.TrimSpace(rest[i+1 : j]), ValType: strings.TrimSpace(rest[j+1:])})
		case "axiom", "lemma":
			cur = nil
			var without []string
			if m := withoutRe.FindStringSubmatch(rest); m != nil {
				without = strings.Fields(strings.ReplaceAll(m[2], ",", " "))
				rest = m[1] + ":" + rest[len(m[0]):]
			}
			label, body := splitLabel(rest)
			e, err := parseSpecExpr(body)
			if err != nil {
				return nil, fmt.Errorf("%s: %v", loc, err)
			}
			if kw == "axiom" {
				sf.Axioms = append(sf.Axioms, &Axiom{Name: label, Text: body, Expr: e, File: loc, Pkg: pkg})
			} else {
				sf.Lemmas = append(sf.Lemmas, &Lemma{Name: label, Text: body, Expr: e, File: loc, Pkg: pkg, Props: append(append([]string(nil), fileProps...), cprops...), Without: without})
			}
		case "define":
			// define name(a, b) = expr
			cur = nil
			i := strings.Index(rest, "(")
			j := matchParen(rest, i)
			k := strings.Index(rest, "=")
			if i < 0 || j < 0 || k < j {
				return nil, fmt.Errorf("%s: bad define", loc)
			}
			m := &Macro{Name: strings.TrimSpace(rest[:i])}
			for _, p := range strings.Split(rest[i+1:j], ",") {
				if p = strings.TrimSpace(p); p != "" {
					m.Params = append(m.Params, p)
				}
			}
			m.Text = strings.TrimSpace(rest[k+1:])
			e, err := parseSpecExpr(m.Text)
			if err != nil {
				return nil, fmt.Errorf("%s: %v", loc, err)
			}
			m.Expr = e
			sf.Defs[m.Name] = m
		case "guarded":
			// guarded Type.field by mutexField
			cur = nil
			f := strings.Fields(rest)
			if len(f) != 3 || f[1] != "by" {
				return nil, fmt.Errorf("%s: bad guarded clause", loc)
			}
			key := f[0]
			if pkg != "" && !strings.Contains(key, "/") {
				key = pkg + "." + key
			}
			sf.ChanInvs = append(sf.ChanInvs, &ChanInv{Key: "guarded:" + key, Var: f[2], Pkg: pkg})
		case "zero":
			// zero pkg.Type(v): expr   -- holds for a freshly allocated zero value of the type, v = its address
			cur = nil
			i := strings.Index(rest, "(")
			j := matchParen(rest, i)
			if i < 0 || j < 0 {
				return nil, fmt.Errorf("%s: bad zero clause", loc)
			}
			body := strings.TrimPrefix(strings.TrimSpace(rest[j+1:]), ":")
			e, err := parseSpecExpr(body)
			if err != nil {
				return nil, fmt.Errorf("%s: %v", loc, err)
			}
			key := strings.TrimSpace(rest[:i])
			if pkg != "" && !strings.Contains(key, "/") {
				key = pkg + "." + key
			}
			sf.ChanInvs = append(sf.ChanInvs, &ChanInv{Key: "zero:" + key, Var: strings.TrimSpace(rest[i+1 : j]), Text: body, Expr: e, Pkg: pkg})
		case "chaninv":
			// chaninv Key(v): expr
			cur = nil
			i := strings.Index(rest, "(")
			j := matchParen(rest, i)
			if i < 0 || j < 0 {
				return nil, fmt.Errorf("%s: bad chaninv", loc)
			}
			body := strings.TrimSpace(rest[j+1:])
			body = strings.TrimPrefix(body, ":")
			e, err := parseSpecExpr(body)
			if err != nil {
				return nil, fmt.Errorf("%s: %v", loc, err)
			}
			key := strings.TrimSpace(rest[:i])
			if pkg != "" && !strings.Contains(key, "/") && strings.Count(key, ".") <= 1 {
				key = pkg + "." + key
			}
			sf.ChanInvs = append(sf.ChanInvs, &ChanInv{Key: key, Var: strings.TrimSpace(rest[i+1 : j]), Text: body, Expr: e, Props: append(append([]string(nil), fileProps...), cprops...), Pkg: pkg, OnlyProps: cprops})
		default:
			return nil, fmt.Errorf("%s: unknown keyword %q", loc, kw)
		}
	}
	return sf, nil
}

func splitKw(s string) (string, string) {
	s = strings.TrimSpace(s)
	if i := strings.IndexAny(s, " \t"); i >= 0 {
		return s[:i], strings.TrimSpace(s[i+1:])
	}
	return s, ""
}

// splitLabel splits "label: expr" when label is a simple identifier (with - and #).
func splitLabel(s string) (string, string) {
	s = strings.TrimSpace(s)
	for i, c := range s {
		if c == ':' {
			if i+1 < len(s) && s[i+1] == ':' {
				return "", s
			}
			if i == 0 {
				return "", s
			}
			return s[:i], strings.TrimSpace(s[i+1:])
		}
		if !(unicode.IsLetter(c) || unicode.IsDigit(c) || c == '-' || c == '_' || c == '#') {
			return "", s
		}
	}
	return "", s
}

func splitTop(s string, sep rune) []string {
	var out []string
	depth := 0
	last := 0
	for i, c := range s {
		switch c {
		case '(', '[':
			depth++
		case ')', ']':
			depth--
		}
		if c == sep && depth == 0 {
			out = append(out, s[last:i])
			last = i + 1
		}
	}
	out = append(out, s[last:])
	return out
}

func matchParen(s string, i int) int {
	if i < 0 {
		return -1
	}
	d := 0
	for j := i; j < len(s); j++ {
		switch s[j] {
		case '(':
			d++
		case ')':
			d--
			if d == 0 {
				return j
			}
		}
	}
	return -1
}
