package main

import (
	"regexp"
	"sort"
	"bytes"
	"context"
	"fmt"
	"os"
	"os/exec"
	"path/filepath"
	"strings"
	"sync"
	"time"
)

type solverSpec struct {
	name string
	args func(file string, timeoutS int) []string
}

// Time limits are CPU seconds of the solver process (ulimit -t), not wall-clock seconds: a loaded machine slows a query
// down without changing its verdict. The wall-clock cap (wallFactor times the CPU limit) only stops a process that is
// starved altogether.
const wallFactor = 12

func limited(t int, argv ...string) []string {
	return []string{"sh", "-c", fmt.Sprintf("ulimit -t %d; exec \"$@\"", t), "sh", argv[0]}[0:5:5]
}

var solvers = []solverSpec{
	{"z3-new", func(f string, t int) []string {
		return append(limited(t, "z3-new"), fmt.Sprintf("-T:%d", t*wallFactor), f)
	}},
	{"z3", func(f string, t int) []string { return append(limited(t, "z3"), fmt.Sprintf("-T:%d", t*wallFactor), f) }},
	{"cvc5", func(f string, t int) []string {
		return append(limited(t, "cvc5"), "--produce-models", fmt.Sprintf("--tlimit=%d", t*wallFactor*1000), f)
	}},
}

// solverSlots bounds the number of solver processes running at once (parts of split obligations run in parallel too).
var solverSlots = make(chan struct{}, 16)

func runSolver(sp solverSpec, file string, timeoutS int) (res string, out string, secs float64) {
	return runSolverCtx(context.Background(), sp, file, timeoutS)
}

// raceSolvers runs all solvers on file at once and returns the first definite answer (unsat/sat), cancelling the rest;
// without a definite answer it returns the last indefinite one.
func raceSolvers(file string, timeoutS int) (res, out, name string, secs float64) {
	ctx, cancel := context.WithCancel(context.Background())
	defer cancel()
	type r struct {
		res, out, name string
		secs           float64
	}
	ch := make(chan r, len(solvers))
	for _, sp := range solvers {
		sp := sp
		go func() {
			rs, ou, se := runSolverCtx(ctx, sp, file, timeoutS)
			ch <- r{rs, ou, sp.name, se}
		}()
	}
	for range solvers {
		x := <-ch
		secs += x.secs
		if x.res == "unsat" || x.res == "sat" {
			return x.res, x.out, x.name, secs
		}
		res, out, name = x.res, x.out, x.name
	}
	return
}

func runSolverCtx(parent context.Context, sp solverSpec, file string, timeoutS int) (res string, out string, secs float64) {
	select {
	case solverSlots <- struct{}{}:
	case <-parent.Done():
		return "cancelled", "", 0
	}
	defer func() { <-solverSlots }()
	ctx, cancel := context.WithTimeout(parent, time.Duration(timeoutS*wallFactor+2)*time.Second)
	defer cancel()
	args := sp.args(file, timeoutS)
	cmd := exec.CommandContext(ctx, args[0], args[1:]...)
	var buf bytes.Buffer
	cmd.Stdout = &buf
	cmd.Stderr = &buf
	t0 := time.Now()
	runErr := cmd.Run()
	secs = time.Since(t0).Seconds()
	if cmd.ProcessState != nil {
		// report CPU seconds: that is what the limit is about
		secs = (cmd.ProcessState.UserTime() + cmd.ProcessState.SystemTime()).Seconds()
	}
	cpuKilled := false
	if ee, ok := runErr.(*exec.ExitError); ok && ee.ProcessState != nil && !ee.ProcessState.Exited() && parent.Err() == nil && ctx.Err() == nil {
		cpuKilled = true // killed by a signal that is not ours: the CPU limit (SIGXCPU/SIGKILL)
	}
	out = buf.String()
	first := strings.TrimSpace(strings.SplitN(out, "\n", 2)[0])
	switch first {
	case "unsat", "sat", "unknown":
		res = first
	case "timeout":
		res = "timeout"
	default:
		if parent.Err() != nil {
			res = "cancelled"
		} else if cpuKilled || ctx.Err() != nil {
			res = "timeout"
		} else if strings.Contains(first, "timeout") {
			res = "timeout"
		} else {
			res = "error"
		}
	}
	return
}

var renderMu sync.Mutex

// solveAll discharges obligations in parallel. tier: quick or thorough.
func solveAll(obls []*Obl, outDir, tier string, workers int) {
	os.MkdirAll(outDir, 0o755)
	timeout := 10
	if tier == "thorough" {
		timeout = 60
	}
	var wg sync.WaitGroup
	ch := make(chan int)
	for w := 0; w < workers; w++ {
		wg.Add(1)
		go func() {
			defer wg.Done()
			for i := range ch {
				o := obls[i]
				if o.Result != "" {
					continue
				}
				file := filepath.Join(outDir, fmt.Sprintf("%04d.smt2", i))
				o.Script = file
				// rendering touches the engine's shared sort/decl tables: serialise it
				renderMu.Lock()
				txt := o.script(true)
				renderMu.Unlock()
				os.WriteFile(file, []byte(txt), 0o644)
				solveOne(o, file, timeout, tier)
			}
		}()
	}
	for i := range obls {
		ch <- i
	}
	close(ch)
	wg.Wait()
}

func solveOne(o *Obl, file string, timeout int, tier string) {
	want := "unsat"
	if o.Cover {
		want = "sat"
		// reachability covers: one solver, short timeout; unknown is accepted
		res, out, secs := runSolver(solvers[0], file, 3)
		o.Result, o.Solver, o.Secs, o.Out = res, solvers[0].name, secs, out
		if res == "unsat" && o.PrePrefix > 0 {
			// relative cover: the path is infeasible after the step. That is a vacuity failure only if it was feasible before.
			before := *o
			before.Prefix, before.PrePrefix = o.PrePrefix, 0
			renderMu.Lock()
			txt := before.script(false)
			renderMu.Unlock()
			bf := file + ".before.smt2"
			os.WriteFile(bf, []byte(txt), 0o644)
			r2, _, s2 := runSolver(solvers[0], bf, 10)
			o.Secs += s2
			if r2 == "unsat" || r2 == "error" {
				// already infeasible before the step (dead path): not attributable to the step
				o.Result = "unknown"
				o.Out = "path infeasible after the step and already before it (" + r2 + "): dead path, not counted"
			} else {
				o.Out = "the path is feasible before this step and infeasible after it: the assumptions introduced by the step (a callee's ensures) are contradictory here\n" + out
			}
		}
		return
	}
	// first solver
	res, out, secs := runSolver(solvers[0], file, timeout)
	o.Result, o.Solver, o.Secs, o.Out = res, solvers[0].name, secs, out
	if res == want && tier != "thorough" {
		return
	}
	if res == "sat" && !o.Cover || res == "unsat" && o.Cover {
		// definite negative answer; keep the model
		if tier != "thorough" {
			return
		}
	}
	// portfolio: the other solvers in parallel
	type r struct {
		name, res, out string
		secs           float64
	}
	rc := make(chan r, len(solvers)-1)
	for _, sp := range solvers[1:] {
		sp := sp
		go func() {
			// the fallback solvers get three times the budget: an obligation only they decide must not sit near the limit
			rs, ou, se := runSolver(sp, file, timeout*3)
			rc <- r{sp.name, rs, ou, se}
		}()
	}
	agree := 0
	if res == want {
		agree = 1
	}
	for range solvers[1:] {
		x := <-rc
		o.Secs += x.secs
		if x.res == want {
			agree++
			if o.Result != want {
				o.Result, o.Solver, o.Out = x.res, x.name, x.out
			} else {
				o.Solver += "+" + x.name
			}
		} else if (x.res == "sat" || x.res == "unsat") && o.Result != want && o.Result != "sat" && o.Result != "unsat" {
			o.Result, o.Solver, o.Out = x.res, x.name, x.out
		} else if (x.res == "sat" || x.res == "unsat") && o.Result == want {
			// disagreement between solvers: report as error
			o.Result, o.Solver, o.Out = "error", o.Solver+" vs "+x.name, "solver disagreement: "+x.name+" says "+x.res+"\n"+x.out
			return
		}
	}
	o.Agree = agree
	if o.Result != want && o.Result != "sat" && !o.Cover {
		trySplit(o, file, timeout)
	}
	if o.Result != want && o.Result != "sat" {
		// No verdict: look for a candidate counterexample with the quantified assumptions dropped.
		// Such a model is only a candidate; it is trusted only if the replay reproduces it on the real code.
		weak := file + ".weak.smt2"
		renderMu.Lock()
		wtxt := stripQuantified(o.script(true))
		renderMu.Unlock()
		os.WriteFile(weak, []byte(wtxt), 0o644)
		rs, ou, se := runSolver(solvers[0], weak, 5)
		o.Secs += se
		if rs == "sat" {
			o.Model = ou
		}
	}
}

// trySplit retries an undecided obligation conjunct by conjunct (see split.go).
func trySplit(o *Obl, file string, timeout int) {
	decls, sk := skolemizeGoal(o.Goal)
	if decls == nil {
		decls = []string{}
	}
	parts := splitGoal(sk)
	if len(parts) > 150 {
		return
	}
	if len(parts) < 2 {
		// nothing to split conjunct-wise: go straight to the case analysis over control-flow merges
		po := *o
		po.Goal = sk
		po.SkDecls = decls
		if tryCases(&po, file, timeout, o) {
			o.Result, o.Solver = "unsat", "cases"
		}
		return
	}
	used := map[string]bool{}
	type partRes struct {
		ok      bool
		sat     bool
		solver  string
		out, pf string
		secs    float64
	}
	results := make([]partRes, len(parts))
	var wg sync.WaitGroup
	for i, g := range parts {
		i, g := i, g
		wg.Add(1)
		go func() {
			defer wg.Done()
			po := *o
			po.Goal = g
			po.SkDecls = decls
			po.Secs = 0
			pf := fmt.Sprintf("%s.part%d.smt2", strings.TrimSuffix(file, ".smt2"), i+1)
			renderMu.Lock()
			txt := po.script(true)
			renderMu.Unlock()
			os.WriteFile(pf, []byte(txt), 0o644)
			r := &results[i]
			r.pf = pf
			rs, ou, nm, se := raceSolvers(pf, timeout)
			r.secs += se
			if rs == "unsat" {
				r.ok, r.solver = true, nm
				return
			}
			if rs == "sat" {
				r.sat, r.solver, r.out = true, nm, ou
				return
			}
			acct := &Obl{}
			if tryCases(&po, pf, timeout, acct) {
				r.ok, r.solver = true, "cases"
			}
			r.secs += acct.Secs
		}()
	}
	wg.Wait()
	for _, r := range results {
		o.Secs += r.secs
	}
	for _, r := range results {
		if r.sat {
			o.Result, o.Solver, o.Out, o.Script = "sat", r.solver, r.out, r.pf
			return
		}
	}
	for _, r := range results {
		if !r.ok {
			return
		}
		used[r.solver] = true
	}
	var names []string
	for n := range used {
		names = append(names, n)
	}
	sort.Strings(names)
	o.Result, o.Solver = "unsat", fmt.Sprintf("split(%d):%s", len(parts), strings.Join(names, "+"))
}

var mergeDefRe = regexp.MustCompile(`^\(= (g![0-9]+) \(or (.*)\)\)$`)

// tryCases retries an undecided part by case analysis over a control-flow merge: for a merge guard g = (or e1 .. en)
// defined before the obligation, the part holds if the guard's cases cover the antecedent and the part holds under
// each case. The most recent merges are tried first.
func tryCases(po *Obl, file string, timeout int, acct *Obl) bool {
	vc := po.vc
	if vc == nil {
		return false
	}
	type merge struct{ cases []string }
	var ms []merge
	for i := po.Prefix - 1; i >= 0 && len(ms) < 4; i-- {
		m := mergeDefRe.FindStringSubmatch(vc.asserts[i])
		if m == nil {
			continue
		}
		t := parseSx("(or " + m[2] + ")")
		if t == nil || len(t.kids) < 3 || len(t.kids) > 6 {
			continue
		}
		var cs []string
		for _, k := range t.kids[1:] {
			cs = append(cs, k.String())
		}
		ms = append(ms, merge{cs})
	}
	if timeout > 10 {
		timeout = 10
	}
	solve := func(goal, tag string) bool {
		q := *po
		q.Goal = goal
		pf := fmt.Sprintf("%s.%s.smt2", strings.TrimSuffix(file, ".smt2"), tag)
		renderMu.Lock()
		txt := q.script(false)
		renderMu.Unlock()
		os.WriteFile(pf, []byte(txt), 0o644)
		rs, _, _, se := raceSolvers(pf, timeout)
		acct.Secs += se
		return rs == "unsat"
	}
	// the part has the shape (=> ANTS G) or G
	ants, g := "true", po.Goal
	if t := parseSx(po.Goal); t != nil && t.head() == "=>" && len(t.kids) == 3 {
		ants, g = t.kids[1].String(), t.kids[2].String()
	}
	for mi, m := range ms {
		if !solve("(=> "+ants+" (or "+strings.Join(m.cases, " ")+"))", fmt.Sprintf("m%dcover", mi)) {
			continue
		}
		ok := true
		for ci, c := range m.cases {
			if !solve("(=> (and "+ants+" "+c+") "+g+")", fmt.Sprintf("m%dcase%d", mi, ci)) {
				ok = false
				break
			}
		}
		if ok {
			return true
		}
	}
	return false
}

// stripQuantified drops every assertion that contains a quantifier.
func stripQuantified(script string) string {
	var b strings.Builder
	for _, l := range strings.Split(script, "\n") {
		if strings.HasPrefix(l, "(assert ") && (strings.Contains(l, "(forall ") || strings.Contains(l, "(exists ")) && !strings.HasPrefix(l, "(assert (not ") {
			continue
		}
		b.WriteString(l + "\n")
	}
	return b.String()
}

func (o *Obl) ok() bool {
	if o.Cover {
		// unknown is accepted for covers (quantified assumptions): only a definite unsat is a vacuity failure
		return o.Result == "sat" || o.Result == "unknown" || o.Result == "timeout"
	}
	return o.Result == "unsat"
}
