package main

import (
	"fmt"
	"go/token"
	"go/types"
	"os"
	"path/filepath"
	"regexp"
	"sort"
	"strings"

	"golang.org/x/tools/go/packages"
	"golang.org/x/tools/go/ssa"
	"golang.org/x/tools/go/ssa/ssautil"
)

type modelFn func(a *Act, st *State, args []Val, resT types.Type, pos token.Pos) Val

type Engine struct {
	fset      *token.FileSet
	pkgs      []*packages.Package
	prog      *ssa.Program
	pkgByPath map[string]*types.Package
	pkgByName map[string][]*types.Package
	ssaPkgs   map[string]*ssa.Package
	modPath   string
	repo      string
	g         *Globals
	contracts map[string]*Contract
	models    map[string]modelFn
	chaninvs  map[string]*ChanInv
	macros    map[string]*Macro
	axioms    []*Axiom
	lemmas    []*Lemma
	specFiles []*SpecFile
	verbose   bool
	axVC      *VC
	axAct     *Act
	loadErrs  []string
	effFree   []string
	guarded   map[string]string // pkgpath.Type.field -> mutex field name
	cglob     map[*ssa.Global]cglobInfo
	cglobNames []string
	chanIDs    map[string]int
}

func newEngine(repo string) *Engine {
	repoRoot = repo
	return &Engine{
		repo:      repo,
		modPath:   "github.com/gordian-engine/gordian",
		pkgByPath: map[string]*types.Package{},
		pkgByName: map[string][]*types.Package{},
		ssaPkgs:   map[string]*ssa.Package{},
		g:         newGlobals(),
		contracts: map[string]*Contract{},
		models:    map[string]modelFn{},
		chaninvs:  map[string]*ChanInv{},
		macros:    map[string]*Macro{},
		guarded:   map[string]string{},
	}
}

func (e *Engine) load(patterns []string) error {
	cfg := &packages.Config{Mode: packages.LoadAllSyntax, Dir: e.repo, BuildFlags: []string{"-tags=verif"},
		Env: append(os.Environ(), "GOFLAGS=-mod=mod", "GOPROXY=off")}
	pkgs, err := packages.Load(cfg, patterns...)
	if err != nil {
		return err
	}
	e.pkgs = pkgs
	nerr := 0
	packages.Visit(pkgs, nil, func(p *packages.Package) {
		for _, er := range p.Errors {
			if strings.HasPrefix(p.PkgPath, e.modPath) {
				e.loadErrs = append(e.loadErrs, er.Error())
				nerr++
			}
		}
		if p.Types != nil {
			e.pkgByPath[p.PkgPath] = p.Types
			e.pkgByName[p.Name] = append(e.pkgByName[p.Name], p.Types)
		}
		if e.fset == nil && p.Fset != nil {
			e.fset = p.Fset
		}
	})
	if nerr > 0 {
		return fmt.Errorf("repository does not type-check: %s", strings.Join(e.loadErrs, "; "))
	}
	prog, _ := ssautil.AllPackages(pkgs, ssa.NaiveForm|ssa.GlobalDebug)
	prog.Build()
	e.prog = prog
	for _, sp := range prog.AllPackages() {
		e.ssaPkgs[sp.Pkg.Path()] = sp
	}
	return nil
}

// loadSpecs reads prelude specs and the contract files next to the loaded repo packages.
func (e *Engine) loadSpecs(preludeDir string) error {
	files, _ := filepath.Glob(filepath.Join(preludeDir, "*.spec"))
	sort.Strings(files)
	for _, f := range files {
		b, err := os.ReadFile(f)
		if err != nil {
			return err
		}
		sf, err := parseSpecFile(f, string(b), "", true)
		if err != nil {
			return err
		}
		e.specFiles = append(e.specFiles, sf)
	}
	var paths []string
	packages.Visit(e.pkgs, nil, func(p *packages.Package) {
		if strings.HasPrefix(p.PkgPath, e.modPath) {
			paths = append(paths, p.PkgPath)
		}
	})
	sort.Strings(paths)
	for _, pp := range paths {
		rel := strings.TrimPrefix(strings.TrimPrefix(pp, e.modPath), "/")
		f := filepath.Join(e.repo, rel, "zz_verif_contracts.go")
		b, err := os.ReadFile(f)
		if err != nil {
			continue
		}
		sf, err := parseSpecFile(f, string(b), pp, false)
		if err != nil {
			return err
		}
		e.specFiles = append(e.specFiles, sf)
	}
	// register
	for _, sf := range e.specFiles {
		for k, m := range sf.Defs {
			m.PkgPath = sf.Pkg
			e.macros[k] = m
		}
	}
	for _, sf := range e.specFiles {
		pkg := e.pkgByPath[sf.Pkg]
		for _, gh := range sf.Ghosts {
			_, ks := e.specType(gh.KeySort, pkg)
			_, vs := e.specType(gh.ValType, pkg)
			gh.KeySort, gh.ValSort = ks, vs
			e.g.ghosts[gh.Name] = gh
		}
		for _, f := range sf.SpecFns {
			e.g.specFns[f.Name] = f
			f.pkg = pkg
		}
		for _, c := range sf.Contracts {
			// expand a leading package *name* (pkgname.Type.Method) to the package path
			if !strings.Contains(c.Key, "/") && strings.Count(c.Key, ".") >= 2 {
				i := strings.Index(c.Key, ".")
				if p := e.findPkg(c.Key[:i], pkg); p != nil && p.Name() == c.Key[:i] {
					c.Key = p.Path() + c.Key[i:]
				}
			}
			if old, dup := e.contracts[c.Key]; dup {
				return fmt.Errorf("duplicate contract for %s (%s and %s)", c.Key, old.File, c.File)
			}
			e.contracts[c.Key] = c
		}
		for _, ci := range sf.ChanInvs {
			if !strings.Contains(ci.Key, "/") && !strings.Contains(ci.Key, ":") && strings.Count(ci.Key, ".") >= 2 {
				i := strings.Index(ci.Key, ".")
				if p := e.findPkg(ci.Key[:i], pkg); p != nil && p.Name() == ci.Key[:i] {
					ci.Key = p.Path() + ci.Key[i:]
				}
			}
			if strings.HasPrefix(ci.Key, "guarded:") {
				e.guarded[ci.Key[8:]] = ci.Var
				continue
			}
			e.chaninvs[ci.Key] = ci
		}
		e.axioms = append(e.axioms, sf.Axioms...)
		e.lemmas = append(e.lemmas, sf.Lemmas...)
	}
	return nil
}

// specType resolves a type written in a spec to a Go type (when it is one) and an SMT sort.
func (e *Engine) specType(s string, pkg *types.Package) (types.Type, string) {
	s = strings.TrimSpace(s)
	switch s {
	case "int":
		return types.Typ[types.Int], sInt
	case "mathint", "ref":
		return nil, sInt
	case "bool":
		return types.Typ[types.Bool], sBool
	case "string":
		return types.Typ[types.String], sStr
	case "iface", "any":
		return types.NewInterfaceType(nil, nil), sIface
	case "slice":
		return nil, sSlice
	case "error":
		return types.Universe.Lookup("error").Type(), sIface
	}
	if strings.HasPrefix(s, "TP_") {
		e.g.decl("sort "+s, "(declare-sort "+s+" 0)")
		e.g.tpSorts[s] = true
		// find a type parameter of that name on a generic type of the package, to have a Go type for it
		if pkg != nil {
			for _, n := range pkg.Scope().Names() {
				if tn, ok := pkg.Scope().Lookup(n).(*types.TypeName); ok {
					if named, ok := tn.Type().(*types.Named); ok && named.TypeParams() != nil {
						for i := 0; i < named.TypeParams().Len(); i++ {
							if named.TypeParams().At(i).Obj().Name() == s[3:] {
								return named.TypeParams().At(i), s
							}
						}
					}
				}
			}
		}
		return nil, s
	}
	if strings.HasPrefix(s, "set[") && strings.HasSuffix(s, "]") {
		_, ks := e.specType(s[4:len(s)-1], pkg)
		return nil, "(Array " + ks + " Bool)"
	}
	if strings.HasPrefix(s, "array[") && strings.HasSuffix(s, "]") {
		parts := splitTop(s[6:len(s)-1], ',')
		if len(parts) == 2 {
			_, ks := e.specType(parts[0], pkg)
			_, vs := e.specType(parts[1], pkg)
			return nil, "(Array " + ks + " " + vs + ")"
		}
	}
	if strings.HasPrefix(s, "*") {
		t, _ := e.specType(s[1:], pkg)
		if t != nil {
			return types.NewPointer(t), sInt
		}
		return nil, sInt
	}
	if strings.HasPrefix(s, "[]") {
		t, _ := e.specType(s[2:], pkg)
		if t != nil {
			return types.NewSlice(t), sSlice
		}
		return nil, sSlice
	}
	if strings.HasPrefix(s, "map[") {
		j := matchBracket(s, 3)
		if j > 0 {
			kt, _ := e.specType(s[4:j], pkg)
			vt, _ := e.specType(s[j+1:], pkg)
			if kt != nil && vt != nil {
				return types.NewMap(kt, vt), sInt
			}
		}
		return nil, sInt
	}
	if obj := types.Universe.Lookup(s); obj != nil {
		if tn, ok := obj.(*types.TypeName); ok {
			return tn.Type(), e.g.sortOf(tn.Type())
		}
	}
	if i := strings.LastIndex(s, "."); i >= 0 {
		pn, tn := s[:i], s[i+1:]
		if p := e.findPkg(pn, pkg); p != nil {
			if obj := p.Scope().Lookup(tn); obj != nil {
				if t, ok := obj.(*types.TypeName); ok {
					return t.Type(), e.g.sortOf(t.Type())
				}
			}
		}
		return nil, sInt
	}
	if pkg != nil {
		if obj := pkg.Scope().Lookup(s); obj != nil {
			if t, ok := obj.(*types.TypeName); ok {
				return t.Type(), e.g.sortOf(t.Type())
			}
		}
	}
	return nil, sInt
}

func matchBracket(s string, i int) int {
	d := 0
	for j := i; j < len(s); j++ {
		switch s[j] {
		case '[':
			d++
		case ']':
			d--
			if d == 0 {
				return j
			}
		}
	}
	return -1
}

func (e *Engine) findPkg(name string, from *types.Package) *types.Package {
	if p, ok := e.pkgByPath[name]; ok {
		return p
	}
	if from != nil {
		for _, imp := range from.Imports() {
			if imp.Name() == name {
				return imp
			}
		}
		if from.Name() == name {
			return from
		}
	}
	ps := e.pkgByName[name]
	if len(ps) > 0 {
		// prefer repo packages
		for _, p := range ps {
			if strings.HasPrefix(p.Path(), e.modPath) {
				return p
			}
		}
		return ps[0]
	}
	return nil
}

func (e *Engine) pkgOfKey(key string, a *Act) *types.Package {
	// key is pkgpath.Name or pkgpath.Type.Name
	k := key
	for i := 0; i < 3; i++ {
		if p, ok := e.pkgByPath[k]; ok {
			return p
		}
		j := strings.LastIndex(k, ".")
		if j < 0 {
			break
		}
		k = k[:j]
	}
	if a != nil && a.fn != nil && a.fn.Pkg != nil {
		return a.fn.Pkg.Pkg
	}
	return nil
}

func (e *Engine) heapSortOf(k string) string {
	for _, f := range e.g.specFns {
		for i, h := range f.Heaps {
			if h == k {
				return f.HeapSorts[i]
			}
		}
	}
	return "(Array Int Int)"
}

// wtPred returns the well-typedness predicate for a field heap of integer element type ("" if none needed).
func (e *Engine) wtPred(key, sort string) string {
	// find the Go type of the field to know its range
	if !strings.HasPrefix(key, "F:") {
		return ""
	}
	rest := key[2:]
	i := strings.LastIndex(rest, ".")
	si := e.g.structs[rest[:i]]
	if si == nil {
		return ""
	}
	for _, f := range si.Fields {
		if f.Name == rest[i+1:] {
			fact := e.g.rangeFact(f.T, "(select h a)")
			if fact == "true" {
				return ""
			}
			n := "wt_" + sanitize(key)
			e.g.decl("fn "+n, fmt.Sprintf("(declare-fun %s (%s) Bool)", n, sort))
			e.g.addAxiom("("+n+" ", fmt.Sprintf("(forall ((h %s) (a Int)) (! (=> (%s h) %s) :pattern ((%s h) (select h a))))", sort, n, fact, n))
			return n
		}
	}
	return ""
}

// resolveReads turns the "reads pkg.Type.field" clauses of a spec function into heap keys.
func (e *Engine) resolveReads(f *SpecFn) {
	if f.resolved {
		return
	}
	f.resolved = true
	for _, r := range f.Reads {
		if strings.Contains(r, ":") {
			// raw heap key: MD:<keysort>, MV:<keysort>:<valsort>, G:<ghost>
			parts := strings.Split(r, ":")
			var srt string
			switch {
			case parts[0] == "MD" && len(parts) == 3:
				srt = "(Array Int (Array " + parts[1] + " Bool))"
			case parts[0] == "MV" && len(parts) == 3:
				srt = "(Array Int (Array " + parts[1] + " " + parts[2] + "))"
			case parts[0] == "E" && len(parts) == 2:
				srt = "(Array Int " + parts[1] + ")"
			case parts[0] == "G" && len(parts) == 2 && e.g.ghosts[parts[1]] != nil:
				_, srt = ghostKey(e.g.ghosts[parts[1]])
			default:
				e.loadErrs = append(e.loadErrs, "spec "+f.Name+": bad reads clause "+r)
				continue
			}
			f.Heaps = append(f.Heaps, r)
			f.HeapSorts = append(f.HeapSorts, srt)
			continue
		}
		i := strings.LastIndex(r, ".")
		if i < 0 {
			e.loadErrs = append(e.loadErrs, "spec "+f.Name+": bad reads clause "+r)
			continue
		}
		t, _ := e.specType(r[:i], f.pkg)
		if t == nil {
			e.loadErrs = append(e.loadErrs, "spec "+f.Name+": unknown type in reads clause "+r)
			continue
		}
		si := e.g.structInfoOf(t)
		found := false
		if si != nil {
			for k, fl := range si.Fields {
				if fl.Name == r[i+1:] {
					key, srt := e.g.fieldHeapKey(si, k)
					f.Heaps = append(f.Heaps, key)
					f.HeapSorts = append(f.HeapSorts, srt)
					found = true
				}
			}
		}
		if !found {
			e.loadErrs = append(e.loadErrs, "spec "+f.Name+": unknown field in reads clause "+r)
		}
	}
}

var effectFreePrefixes = []string{
	"log/slog.", "fmt.", "runtime/trace.", "context.", "time.", "strings.", "strconv.", "unicode", "math.", "math/bits.",
	"errors.", "runtime.", "log.", "os.", "reflect.", "sort.", "slices.", "maps.", "bytes.", "io.", "encoding/hex.", "encoding/binary.",
	"sync/atomic.", "hash", "crypto/", "golang.org/x/crypto/", "testing.", "github.com/stretchr/", "unicode/utf8.", "iter.",
	"github.com/gordian-engine/gordian/internal/glog.", "github.com/gordian-engine/gordian/gassert.",
}

func (e *Engine) effectFree(key string) bool {
	for _, p := range effectFreePrefixes {
		if strings.HasPrefix(key, p) {
			return true
		}
	}
	for _, p := range e.effFree {
		if strings.HasPrefix(key, p) {
			return true
		}
	}
	return false
}

// chanID numbers channel keys (index into the nsent ghost).
func (e *Engine) chanID(key string) string {
	if e.chanIDs == nil {
		e.chanIDs = map[string]int{}
	}
	if n, ok := e.chanIDs[key]; ok {
		return fmt.Sprint(n)
	}
	n := len(e.chanIDs) + 1
	e.chanIDs[key] = n
	return fmt.Sprint(n)
}

// constGlobal reports whether a package-level variable is written only by its package initializer; such variables
// are modelled as constants. nonNil is set when the initializer stores the result of errors.New / fmt.Errorf.
func (e *Engine) constGlobal(g *ssa.Global) (name string, nonNil, ok bool) {
	if r, seen := e.cglob[g]; seen {
		return r.name, r.nonNil, r.ok
	}
	res := cglobInfo{name: "gconst_" + sanitize(g.Pkg.Pkg.Path()+"_"+g.Name()), ok: true}
	stores := 0
	for _, m := range g.Pkg.Members {
		fn, isFn := m.(*ssa.Function)
		if !isFn {
			continue
		}
		var visit func(f *ssa.Function)
		visit = func(f *ssa.Function) {
			for _, b := range f.Blocks {
				for _, in := range b.Instrs {
					// any use of the global's address other than a load or an init-time store makes it non-constant
					for _, op := range in.Operands(nil) {
						if *op != ssa.Value(g) {
							continue
						}
						switch x := in.(type) {
						case *ssa.UnOp:
						case *ssa.Store:
							if x.Addr == ssa.Value(g) && f.Name() == "init" {
								stores++
								if c, isCall := x.Val.(*ssa.Call); isCall {
									if sc := c.Call.StaticCallee(); sc != nil && (sc.String() == "errors.New" || sc.String() == "fmt.Errorf") {
										res.nonNil = true
									}
								}
							} else {
								res.ok = false
							}
						default:
							res.ok = false
						}
					}
				}
			}
			for _, af := range f.AnonFuncs {
				visit(af)
			}
		}
		visit(fn)
	}
	// methods of named types
	for _, m := range g.Pkg.Members {
		if tn, isT := m.(*ssa.Type); isT {
			for _, tt := range []types.Type{tn.Type(), types.NewPointer(tn.Type())} {
				ms := e.prog.MethodSets.MethodSet(tt)
				for i := 0; i < ms.Len(); i++ {
					f := e.prog.MethodValue(ms.At(i))
					if f == nil {
						continue
					}
					for _, b := range f.Blocks {
						for _, in := range b.Instrs {
							if st, isStore := in.(*ssa.Store); isStore && st.Addr == ssa.Value(g) {
								res.ok = false
							}
						}
					}
				}
			}
		}
	}
	if stores > 1 {
		res.ok = false
	}
	if e.cglob == nil {
		e.cglob = map[*ssa.Global]cglobInfo{}
	}
	e.cglob[g] = res
	return res.name, res.nonNil, res.ok
}

type cglobInfo struct {
	name       string
	nonNil, ok bool
}

// ---- spec functions and axioms ----

func (e *Engine) specFnDecl(f *SpecFn) string {
	e.resolveReads(f)
	var ps []string
	for _, p := range f.Params {
		_, s := e.specType(p.Type, f.pkg)
		ps = append(ps, s)
	}
	ps = append(ps, f.HeapSorts...)
	_, rs := e.specType(f.Result, f.pkg)
	return fmt.Sprintf("(declare-fun spec_%s (%s) %s)", f.Name, strings.Join(ps, " "), rs)
}

var tokRe = regexp.MustCompile(`spec_[A-Za-z0-9_]+|box_S_[A-Za-z0-9_]+|strlt|strcat|str_of|str_sub`)

func (e *Engine) ensureAxioms() {
	if e.axVC != nil {
		return
	}
	e.axVC = &VC{eng: e, g: e.g, fnName: "axioms", heapSorts: map[string]string{}}
	e.axAct = &Act{eng: e, vc: e.axVC, regs: map[ssa.Value]Val{}, cells: map[*ssa.Alloc]*Cell{}, counts: map[string]int{}}
	st := &State{guard: "true", cells: map[*Cell]Val{}, heap: map[string]string{}, top: "0"}
	// heaps read by spec functions are universally quantified in axioms
	type hv struct{ name, sort, key string }
	var hvs []hv
	st2 := &State{guard: "true", cells: map[*Cell]Val{}, heap: map[string]string{}, top: "0"}
	for _, k := range sortedKeys(e.g.specFns) {
		f := e.g.specFns[k]
		e.resolveReads(f)
		for i, h := range f.Heaps {
			if _, ok := st.heap[h]; !ok {
				n := fmt.Sprintf("axh%d", len(hvs))
				st.heap[h] = n
				e.axVC.heapSorts[h] = f.HeapSorts[i]
				hvs = append(hvs, hv{n, f.HeapSorts[i], h})
				n2 := fmt.Sprintf("axg%d", len(hvs))
				st2.heap[h] = n2
				hvs = append(hvs, hv{n2, f.HeapSorts[i], h})
			}
		}
	}
	for _, ax := range e.axioms {
		env := &SpecEnv{a: e.axAct, vc: e.axVC, eng: e, st: st, other: st2, vars: map[string]Val{}, pkg: e.pkgByPath[ax.Pkg]}
		s, err := env.evalBool(ax.Expr)
		if err != nil {
			e.loadErrs = append(e.loadErrs, fmt.Sprintf("%s: axiom error: %v", ax.File, err))
			continue
		}
		s = e.quantifyHeaps(s, func() (n, srt, key []string) {
			for _, h := range hvs {
				n, srt, key = append(n, h.name), append(srt, h.sort), append(key, h.key)
			}
			return
		})
		ax.Text = s
		ax.Uses = uniq(tokRe.FindAllString(s, -1))
	}
	// built-in string order axioms
	e.axioms = append(e.axioms,
		&Axiom{Name: "strlt-irrefl", Text: "(forall ((a Str)) (! (not (strlt a a)) :pattern ((strlt a a))))", Uses: []string{"strlt"}},
		&Axiom{Name: "strlt-trans", Text: "(forall ((a Str) (b Str) (c Str)) (! (=> (and (strlt a b) (strlt b c)) (strlt a c)) :pattern ((strlt a b) (strlt b c))))", Uses: []string{"strlt"}},
		&Axiom{Name: "strlt-total", Text: "(forall ((a Str) (b Str)) (! (or (strlt a b) (= a b) (strlt b a)) :pattern ((strlt a b))))", Uses: []string{"strlt"}},
		&Axiom{Name: "strlt-empty", Text: "(forall ((a Str)) (! (=> (strlt a str!empty) false) :pattern ((strlt a str!empty))))", Uses: []string{"strlt"}},
	)
	e.g.strLit("")
}

// quantifyHeaps closes a formula over the heap variables it mentions, under their well-typedness hypotheses.
func (e *Engine) quantifyHeaps(s string, hv func() (n, srt, key []string)) string {
	names, sorts, keys := hv()
	var binds, wts []string
	for i, n := range names {
		if regexp.MustCompile(`\b` + n + `\b`).MatchString(s) {
			binds = append(binds, fmt.Sprintf("(%s %s)", n, sorts[i]))
			if wt := e.wtPred(keys[i], sorts[i]); wt != "" {
				wts = append(wts, app(wt, n))
			}
		}
	}
	if len(binds) == 0 {
		return s
	}
	if strings.HasPrefix(s, "(forall (") {
		// merge into the leading quantifier: (forall (binds vars) (=> wts body))
		j := matchParenAt(s, len("(forall "))
		vars := s[len("(forall (") : j]
		body := strings.TrimSpace(s[j+1 : len(s)-1])
		if strings.HasPrefix(body, "(! ") {
			k := matchParenAt(body, 3)
			if body[3] != '(' {
				k = 3 + strings.IndexAny(body[3:], " ") - 1
			}
			inner := body[3 : k+1]
			body = "(! " + implies(and(wts...), inner) + body[k+1:]
			return "(forall (" + strings.Join(binds, " ") + " " + vars + ") " + body + ")"
		}
		return "(forall (" + strings.Join(binds, " ") + " " + vars + ") " + implies(and(wts...), body) + ")"
	}
	return "(forall (" + strings.Join(binds, " ") + ") " + implies(and(wts...), s) + ")"
}

func matchParenAt(s string, i int) int {
	d := 0
	for j := i; j < len(s); j++ {
		switch s[j] {
		case '(':
			d++
		case ')':
			d--
			if d == 0 {
				return j
			}
		}
	}
	return -1
}

func uniq(xs []string) []string {
	m := map[string]bool{}
	var out []string
	for _, x := range xs {
		if !m[x] {
			m[x] = true
			out = append(out, x)
		}
	}
	return out
}

// axiomsFor returns the axioms relevant to a script body (transitively).
func (e *Engine) axiomsFor(body string) []string { return e.axiomsForExcept(body, nil) }

func (e *Engine) axiomsForExcept(body string, without []string) []string {
	e.ensureAxioms()
	have := map[string]bool{}
	for _, t := range tokRe.FindAllString(body, -1) {
		have[t] = true
	}
	used := make([]bool, len(e.axioms))
	var out []string
	for changed := true; changed; {
		changed = false
		for i, ax := range e.axioms {
			if used[i] || ax.Text == "" {
				continue
			}
			skip := false
			for _, w := range without {
				if ax.Name == w {
					skip = true
				}
			}
			if skip {
				continue
			}
			hit := false
			for _, u := range ax.Uses {
				if have[u] {
					hit = true
					break
				}
			}
			if hit {
				used[i] = true
				changed = true
				out = append(out, ax.Text)
				for _, u := range ax.Uses {
					have[u] = true
				}
			}
		}
	}
	return out
}

// ---- verification driver ----

func (e *Engine) findFunc(key string) *ssa.Function {
	// key: pkgpath.Name | pkgpath.Type.Name | ...$N
	closure := ""
	if i := strings.Index(key, "$"); i >= 0 {
		closure = key[i:]
		key = key[:i]
	}
	var fn *ssa.Function
	for pp, sp := range e.ssaPkgs {
		if !strings.HasPrefix(key, pp+".") {
			continue
		}
		rest := key[len(pp)+1:]
		if strings.Contains(rest, "/") {
			continue
		}
		parts := strings.Split(rest, ".")
		switch len(parts) {
		case 1:
			fn = sp.Func(parts[0])
		case 2:
			if tn, ok := sp.Members[parts[0]].(*ssa.Type); ok {
				t := tn.Type()
				if named, isNamed := t.(*types.Named); isNamed {
					for i := 0; i < named.NumMethods(); i++ {
						if named.Method(i).Name() == parts[1] {
							if f := e.prog.FuncValue(named.Method(i)); f != nil {
								fn = f
							}
						}
					}
				}
				if fn != nil {
					break
				}
				for _, tt := range []types.Type{t, types.NewPointer(t)} {
					ms := e.prog.MethodSets.MethodSet(tt)
					for i := 0; i < ms.Len(); i++ {
						if ms.At(i).Obj().Name() == parts[1] {
							f := e.prog.MethodValue(ms.At(i))
							if f != nil && f.Synthetic == "" {
								fn = f
							} else if f != nil && fn == nil {
								// wrapper for promoted/value method: find declared function
								if obj, ok := ms.At(i).Obj().(*types.Func); ok {
									if df := e.prog.FuncValue(obj); df != nil {
										fn = df
									}
								}
							}
						}
					}
				}
			}
		}
		if fn != nil {
			break
		}
	}
	if fn == nil {
		return nil
	}
	if closure != "" {
		for _, af := range fn.AnonFuncs {
			if strings.HasSuffix(af.Name(), closure) {
				return af
			}
		}
		return nil
	}
	return fn
}

func (e *Engine) verifyFn(fn *ssa.Function, con *Contract) *VC {
	key := fnKey(fn)
	short := shortName(key)
	vc := &VC{eng: e, g: e.g, fnName: key, heapSorts: map[string]string{}, fn: fn}
	a := &Act{eng: e, vc: vc, fn: fn, con: con, regs: map[ssa.Value]Val{}, cells: map[*ssa.Alloc]*Cell{}, counts: map[string]int{},
		prefix: short, props: con.Props, params: map[string]Val{}, written: map[string]bool{}}
	var sends []string
	a.sends = &sends
	vc.act = a
	st := &State{guard: "true", cells: map[*Cell]Val{}, heap: map[string]string{}}
	st.top = vc.fresh("top0", sInt)
	vc.assume("true", "(> "+st.top+" 0)")
	names := con.Params
	for i, p := range fn.Params {
		v := a.freshVal("p_"+p.Name(), p.Type())
		a.regs[p] = v
		nm := p.Name()
		if i < len(names) {
			nm = names[i]
		}
		a.params[nm] = v
		a.params[fmt.Sprintf("$%d", i)] = v
		a.paramOrd = append(a.paramOrd, nm)
		a.paramFacts(st, v, i == 0 && fn.Signature.Recv() != nil)
	}
	for _, fv := range fn.FreeVars {
		v := a.freshVal("fv_"+fv.Name(), fv.Type())
		a.regs[fv] = v
		a.params[fv.Name()] = v
		a.paramFacts(st, v, true)
	}
	// "option implements <iface key>": the implementation is verified against the interface method's contract,
	// with the receiver seen through the interface (model fields are indexed by the interface payload).
	var ifaceCon *Contract
	if ik := con.Opts["implements"]; ik != "" {
		if !strings.Contains(ik, "/") && fn.Pkg != nil {
			ik = fn.Pkg.Pkg.Path() + "." + ik
		}
		ifaceCon = e.contracts[ik]
		if ifaceCon == nil {
			vc.oblige(short+"/contract-error", "pre", con.Props, con.File, "true", "false", "contract error: interface contract "+ik+" not found")
		} else if len(fn.Params) > 0 {
			it := e.ifaceTypeOf(ik, fn)
			recv := a.regs[fn.Params[0]]
			iv := a.makeIface(st, recv, it)
			names := ifaceCon.Params
			a.ifaceParams = map[string]Val{}
			for i := range fn.Params {
				if i < len(names) {
					if i == 0 {
						a.ifaceParams[names[0]] = iv
					} else {
						a.ifaceParams[names[i]] = a.regs[fn.Params[i]]
					}
				}
			}
			a.params["self"] = iv
		}
	}
	a.ifaceCon = ifaceCon
	a.analyzeCFG()
	// requires
	// no lock is held when a verified function is entered (sequential contract of one call)
	{
		H := vc.getHeap(st, "G:held", "(Array Int Int)")
		U := vc.getHeap(st, "G:lockuses", "(Array Int Int)")
		vc.assume("true", "(forall ((m Int)) (! (= (select "+H+" m) 0) :pattern ((select "+H+" m))))")
		vc.assume("true", "(forall ((m Int)) (! (= (select "+U+" m) 0) :pattern ((select "+U+" m))))")
	}
	env := a.specEnv(st)
	env.old = st
	allReq := append(append([]*Clause(nil), con.Requires...), con.Represents...)
	if ifaceCon != nil {
		allReq = append(allReq, ifaceCon.Requires...)
	}
	for _, c := range con.Assumes {
		vc.noteAssumed("assumed at entry of " + short + " and not checked at its call sites: " + c.Label + ": " + c.Text)
	}
	allReq = append(allReq, con.Assumes...)
	for _, c := range allReq {
		s, err := a.clauseEnv(env, c).evalBool(c.Expr)
		if err != nil {
			vc.oblige(short+"/contract-error", "pre", con.Props, c.Line, "true", "false", "contract error: "+err.Error()+" in: "+c.Text)
			continue
		}
		vc.assume("true", s)
	}
	a.entry = st.clone()
	if len(fn.Blocks) == 0 {
		vc.unsupported("function %s has no body", key)
	} else {
		a.runBlocks(fn.Blocks[0], st, nil, nil)
	}
	// every mutex acquired by the function is released on every return path
	for _, r := range a.rets {
		H := vc.getHeap(r.st, "G:held", "(Array Int Int)")
		for _, mu := range a.locks {
			vc.obligeNoAssume(fmt.Sprintf("%s/lock-released#%d", short, len(vc.obls)), "lock", con.Props, posStr(e.fset, fn.Pos()), r.st.guard, eq(sel(H, mu), "0"), "mutex released on every return path")
		}
	}
	// vacuity: some return (or panic) must be reachable under the assumptions
	var gs []string
	for _, r := range a.rets {
		gs = append(gs, r.st.guard)
	}
	if len(gs) > 0 {
		vc.cover(short+"/vacuity", con.Props, posStr(e.fset, fn.Pos()), or(gs...), "requires and invariants are satisfiable and some return is reachable")
	}
	for _, u := range vc.unsupp {
		vc.obls = append(vc.obls, &Obl{Name: short + "/subset", Kind: "subset", Props: con.Props, Fn: key, Pos: posStr(e.fset, fn.Pos()), Goal: "false", Desc: "outside the modelled Go subset: " + u, vc: vc, Prefix: 0, Result: "unknown", Solver: "none", Out: u})
	}
	vc.sends = sends
	return vc
}

func (a *Act) paramFacts(st *State, v Val, nonNil bool) {
	if v.T == nil {
		return
	}
	if _, isTP := isTypeParam(v.T); isTP {
		return
	}
	vc := a.vc
	if si := vc.g.structInfoOf(v.T); si != nil && v.S != "" {
		// references held inside a struct-valued parameter existed before the call
		for _, f := range si.Fields {
			a.paramFacts(st, Val{S: app(f.Sel, v.S), Sort: f.Sort, T: f.T}, false)
		}
		return
	}
	switch v.T.Underlying().(type) {
	case *types.Pointer, *types.Map, *types.Chan:
		vc.assume("true", "(<= (base "+v.S+") "+st.top+")")
		if _, isPtr := v.T.Underlying().(*types.Pointer); isPtr && nonNil {
			vc.assume("true", not(eq(v.S, "0")))
		}
	case *types.Slice:
		vc.assume("true", "(<= (base (sl_arr "+v.S+")) "+st.top+")")
	case *types.Interface:
		vc.assume("true", "(<= (base (ival "+v.S+")) "+st.top+")")
	}
}

// ifaceTypeOf finds the interface type named by an interface-method contract key (pkgpath.Iface.Method).
func (e *Engine) ifaceTypeOf(key string, fn *ssa.Function) types.Type {
	i := strings.LastIndex(key, ".")
	tn := key[:i]
	j := strings.LastIndex(tn, ".")
	if p := e.pkgByPath[tn[:j]]; p != nil {
		if obj, ok := p.Scope().Lookup(tn[j+1:]).(*types.TypeName); ok {
			return obj.Type()
		}
	}
	return types.NewInterfaceType(nil, nil)
}

// verifyLemma produces the VC of a lemma (goal over spec functions).
func (e *Engine) verifyLemma(l *Lemma) *VC {
	e.ensureAxioms()
	vc := &VC{eng: e, g: e.g, fnName: "lemma " + l.Name, heapSorts: map[string]string{}, without: l.Without}
	a := &Act{eng: e, vc: vc, regs: map[ssa.Value]Val{}, cells: map[*ssa.Alloc]*Cell{}, counts: map[string]int{}}
	st := &State{guard: "true", cells: map[*Cell]Val{}, heap: map[string]string{}, top: "0"}
	env := &SpecEnv{a: a, vc: vc, eng: e, st: st, vars: map[string]Val{}, pkg: e.pkgByPath[l.Pkg]}
	s, err := env.evalBool(l.Expr)
	if err != nil {
		vc.oblige("lemma/"+l.Name, "lemma", l.Props, l.File, "true", "false", "contract error: "+err.Error())
		return vc
	}
	vc.obligeNoAssume("lemma/"+l.Name, "lemma", l.Props, l.File, "true", s, l.Text)
	return vc
}
