package main

import (
	"fmt"
	"go/token"
	"go/types"
	"strings"
)

// registerModels installs Go-implemented models of library functions (those that are awkward to state as contracts).
func registerModels(e *Engine) {
	// sync.Mutex / sync.RWMutex: ghost held(mu) in {0 none, 1 read, 2 write}; lockuses(mu) counts acquisitions.
	lock := func(mode string, acquire bool) modelFn {
		return func(a *Act, st *State, args []Val, resT types.Type, pos token.Pos) Val {
			vc := a.vc
			mu := args[0].S
			hk, hs := "G:held", "(Array Int Int)"
			uk := "G:lockuses"
			H := vc.getHeap(st, hk, hs)
			U := vc.getHeap(st, uk, hs)
			props := a.props
			if acquire {
				vc.oblige(a.oblName("lock-not-held"), "lock", props, a.pos(pos), st.guard, eq(sel(H, mu), "0"), "mutex is not already held by this call (self-deadlock)")
				if a.optOn("single-critical-section") {
					vc.oblige(a.oblName("single-critical-section"), "lock", props, a.pos(pos), st.guard, eq(sel(U, mu), "0"),
						"the method takes its lock once: all shared accesses lie in one critical section (premise of the linearizability argument)")
				}
				vc.setHeap(st, hk, hs, store(H, mu, mode))
				vc.setHeap(st, uk, hs, store(U, mu, "(+ 1 "+sel(U, mu)+")"))
				a.logHeapAt(hk, mu)
				a.logHeapAt(uk, mu)
				top := a
				if a.top != nil {
					top = a.top
				}
				top.locks = appendUnique(top.locks, mu)
			} else {
				vc.oblige(a.oblName("unlock-held"), "lock", props, a.pos(pos), st.guard, eq(sel(H, mu), mode), "mutex is held in the matching mode when released")
				vc.setHeap(st, hk, hs, store(H, mu, "0"))
				a.logHeapAt(hk, mu)
			}
			return Val{Sort: "Tuple"}
		}
	}
	// encoding/json.Unmarshal(data, v): total; on return *v holds an arbitrary well-typed value, nothing else changes (T3).
	e.models["encoding/json.Unmarshal"] = func(a *Act, st *State, args []Val, resT types.Type, pos token.Pos) Val {
		res := a.freshVal("jsonerr", resT)
		tgt := args[1]
		if tgt.Under != nil && tgt.Under.T != nil && tgt.Under.P == nil {
			if pt, ok := tgt.Under.T.Underlying().(*types.Pointer); ok {
				a.havocStruct(st, tgt.Under.S, pt.Elem())
				a.vc.noteAssumed("encoding/json.Unmarshal: total, writes an arbitrary well-typed value into its target and nothing else")
				return res
			}
		}
		a.vc.noteAssumed("encoding/json.Unmarshal with untracked target: havocs the heap")
		a.havocAllHeaps(st)
		return res
	}
	// gchan.SendC(ctx, log, out, val, during): sends val on out (or gives up on cancellation): the channel invariant of
	// out is an obligation exactly as for a plain send statement.
	sendC := func(a *Act, st *State, args []Val, resT types.Type, pos token.Pos) Val {
		res := a.freshVal("sent", resT)
		if a.curCall != nil && len(a.curCall.Args) >= 4 && len(args) >= 4 {
			a.chanSend(st, args[2], args[3], a.curCall.Args[2], pos)
		}
		if res.Sort == sBool {
			// gives up only when the context is cancelled
			a.vc.assume(st.guard, implies(not(res.S), a.vc.envFailed()))
		}
		return res
	}
	// slices.IndexFunc / ContainsFunc with a closure defined in the verified code: the closure is evaluated
	// symbolically on the reported element (a found index satisfies the predicate).
	indexFunc := func(contains bool) modelFn {
		return func(a *Act, st *State, args []Val, resT types.Type, pos token.Pos) Val {
			vc := a.vc
			sl := args[0]
			idx := a.freshVal("idxfn", types.Typ[types.Int])
			s := vc.define("ifs", sSlice, sl.S)
			vc.assume("true", fmt.Sprintf("(and (<= (- 1) %s) (< %s (sl_len %s)))", idx.S, idx.S, s))
			found := "(>= " + idx.S + " 0)"
			if len(args) > 1 && args[1].Fn != nil && args[1].Fn.Fn != nil && a.depth < 4 {
				if et, ok := sl.T.Underlying().(*types.Slice); ok {
					sc := st.clone()
					sc.guard = vc.define("ifg", sBool, and(st.guard, found))
					addr := fmt.Sprintf("(selem %s %s)", s, idx.S)
					elem := a.loadAt(sc, addr, et.Elem())
					wl := a.writeLog
					r := a.inline(sc, args[1].Fn.Fn, args[1].Fn.Bindings, []Val{elem}, types.Typ[types.Bool], pos)
					a.writeLog = wl
					if r.Sort == sBool {
						vc.assume(sc.guard, r.S)
					}
				}
			}
			if contains {
				return Val{S: found, Sort: sBool, T: resT}
			}
			idx.T = resT
			return idx
		}
	}
	e.models["slices.IndexFunc"] = indexFunc(false)
	e.models["slices.ContainsFunc"] = indexFunc(true)
	// gchan.ReqResp(ctx, log, reqChan, reqValue, respChan, what): SendC of the request, then a receive of the response
	// (an arbitrary value of the response type; ok=false on cancellation).
	e.models[e.modPath+"/internal/gchan.ReqResp"] = func(a *Act, st *State, args []Val, resT types.Type, pos token.Pos) Val {
		if a.curCall != nil && len(a.curCall.Args) >= 4 && len(args) >= 4 {
			// site reqresp <channel>: assertion on the request value at this call (reqValue names it)
			if t := a; t.con != nil && !t.inlined && a.vc.quiet == 0 {
				rk := a.chanKey(a.curCall.Args[2])
				for _, c := range t.con.Sites {
					if c.Kind != "site-reqresp" || !strings.HasSuffix(rk, c.LoopFn) {
						continue
					}
					env := a.specEnv(st)
					env.vars["reqValue"] = args[3]
					a.siteN++
					name := fmt.Sprintf("%s/site reqresp %s.%s#%d", a.prefix, c.LoopFn, c.Label, a.siteN)
					if v, err := env.evalBool(c.Expr); err != nil {
						a.vc.oblige(name, "site", a.props, c.Line, st.guard, "false", "contract error: "+err.Error()+" in: "+c.Text)
					} else {
						a.vc.oblige(name, "site", a.props, a.pos(pos)+" ["+c.Line+"]", st.guard, v, "at the request sent on "+c.LoopFn+": "+c.Text)
					}
				}
			}
			a.chanSend(st, args[2], args[3], a.curCall.Args[2], pos)
		}
		// The peer goroutine answers after working on the request, which may carry pointers into this goroutine's
		// memory (e.g. a view to fill in): everything except the fields of the verified method's receiver type may have
		// changed when the response arrives.
		top := a
		if a.top != nil {
			top = a.top
		}
		var keep []string
		if top.fn != nil && top.fn.Signature.Recv() != nil {
			t := top.fn.Signature.Recv().Type()
			if p, ok := t.Underlying().(*types.Pointer); ok {
				t = p.Elem()
			}
			if n, ok := types.Unalias(t).(*types.Named); ok {
				keep = append(keep, n.Obj().Name())
			}
		}
		if top.con != nil && top.con.Opts["reqresp-keeps"] != "" {
			// goroutine-local structures the request does not expose (stated per function, listed as an assumption)
			for _, k := range strings.Split(top.con.Opts["reqresp-keeps"], ",") {
				if k = strings.TrimSpace(k); k != "" {
					keep = append(keep, k)
				}
			}
		}
		a.vc.noteAssumed("gchan.ReqResp: the responder may write any memory except the fields of the receiver type and of goroutine-local types named by option reqresp-keeps: " + strings.Join(keep, ","))
		a.havocHeaps(st, true, keep)
		ntop := a.vc.fresh("top", sInt)
		a.vc.assume("true", "(>= "+ntop+" "+st.top+")")
		st.top = ntop
		res := a.freshVal("reqresp", resT)
		if len(res.Tup) == 2 && res.Tup[1].Sort == sBool {
			// ok=false only when the context is cancelled
			a.vc.assume(st.guard, implies(not(res.Tup[1].S), a.vc.envFailed()))
		}
		// the response is a value received on respChan: the responder guarantees that channel's invariant
		if a.curCall != nil && len(a.curCall.Args) >= 5 && len(res.Tup) == 2 {
			ci := a.chanInvFor(a.curCall.Args[4])
			if ci == nil && args[3].T != nil && args[3].S != "" && len(args) >= 5 {
				// the response channel is usually also a field of the request (req.Resp): use that field's invariant,
				// after proving that the field really is the channel passed as respChan
				if si := a.vc.g.structInfoOf(args[3].T); si != nil {
					for i, f := range si.Fields {
						fc, isChan := f.T.Underlying().(*types.Chan)
						rc, isChan2 := args[4].T.Underlying().(*types.Chan)
						if !isChan || !isChan2 || !types.Identical(fc.Elem(), rc.Elem()) {
							continue
						}
						c2 := a.eng.chaninvs[a.fieldKey(args[3].T, f.Name)]
						if c2 == nil {
							continue
						}
						fv := a.getPath(args[3], []int{i})
						if fv.S == "" {
							continue
						}
						a.vc.oblige(a.oblName("reqresp-channel"), "pre", a.props, a.pos(pos), st.guard, eq(fv.S, args[4].S), "the response channel passed to ReqResp is the request's "+f.Name+" field")
						ci = c2
						break
					}
				}
			}
			if top.con != nil && len(top.con.Relies) > 0 && !a.inlined {
				rk := a.chanKey(a.curCall.Args[2])
				for _, c := range top.con.Relies {
					if !strings.HasSuffix(rk, c.LoopFn) {
						continue
					}
					env := a.specEnv(st)
					env.vars["response"] = res.Tup[0]
					if f, err := env.evalBool(c.Expr); err == nil {
						a.vc.assume(st.guard, implies(res.Tup[1].S, f))
						a.vc.noteAssumed("rely (responder of " + c.LoopFn + "): " + c.Text)
					} else {
						a.vc.oblige(a.oblName("contract-error"), "pre", a.props, c.Line, st.guard, "false", "contract error in rely: "+err.Error())
					}
				}
			}
			if ci != nil {
				env := a.specEnv(st)
				env.vars[ci.Var] = res.Tup[0]
				env.pkg = a.eng.pkgByPath[ci.Pkg]
				if f, err := env.evalBool(ci.Expr); err == nil {
					a.vc.assume(st.guard, implies(res.Tup[1].S, f))
					a.vc.noteAssumed("received response satisfies its channel invariant (guaranteed by the sender's chan-send obligations where the sender is under contract): " + ci.Text)
				}
			}
		}
		return res
	}
	e.models[e.modPath+"/internal/gchan.SendC"] = sendC
	e.models[e.modPath+"/internal/gchan.SendCLogBlocked"] = sendC
	e.models["sync.RWMutex.Lock"] = lock("2", true)
	e.models["sync.RWMutex.Unlock"] = lock("2", false)
	e.models["sync.RWMutex.RLock"] = lock("1", true)
	e.models["sync.RWMutex.RUnlock"] = lock("1", false)
	e.models["sync.Mutex.Lock"] = lock("2", true)
	e.models["sync.Mutex.Unlock"] = lock("2", false)
}

func appendUnique(xs []string, x string) []string {
	for _, y := range xs {
		if y == x {
			return xs
		}
	}
	return append(xs, x)
}

// guardOf returns the mutex address guarding field (struct type t, field name), if declared via "guarded".
func (a *Act) guardOf(t types.Type, field string, base string) string {
	n, ok := types.Unalias(t).(*types.Named)
	if !ok || n.Obj().Pkg() == nil {
		return ""
	}
	mu := a.eng.guarded[n.Obj().Pkg().Path()+"."+n.Obj().Name()+"."+field]
	if mu == "" {
		return ""
	}
	si := a.vc.g.structInfoOf(t)
	for i, f := range si.Fields {
		if f.Name == mu {
			return app(a.vc.g.fldFn(si, i), base)
		}
	}
	return ""
}

// checkGuard emits the lock-discipline obligation for an access to guarded data.
func (a *Act) checkGuard(st *State, mu string, write bool, what string, pos token.Pos) {
	if mu == "" {
		return
	}
	H := a.vc.getHeap(st, "G:held", "(Array Int Int)")
	goal := not(eq(sel(H, mu), "0"))
	desc := "read of " + what + " happens with its mutex held"
	if write {
		goal = eq(sel(H, mu), "2")
		desc = "write of " + what + " happens with its mutex held for writing"
	}
	a.vc.oblige(a.oblName("lock-guard"), "lock", a.props, a.pos(pos), st.guard, goal, desc)
}

// extraObligations adds property-specific structural obligations (send-site enumeration, format side conditions, ...).
func (e *Engine) extraObligations(prop string, cfg *PropCfg) []*Obl {
	switch prop {
	case "C15":
		return e.c15Obligations(prop)
	case "C14":
		return e.c14Obligations(prop)
	}
	return nil
}

var _ = fmt.Sprint
var _ = strings.Contains
