package main

// registerModels installs Go-implemented models of library functions (those that are awkward to state as contracts).
func registerModels(e *Engine) {
}

// extraObligations adds property-specific structural obligations (send-site enumeration, format side conditions, ...).
func (e *Engine) extraObligations(prop string, cfg *PropCfg) []*Obl {
	return nil
}
